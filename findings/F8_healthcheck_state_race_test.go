// Demonstration of the defect fixed by F8 (property C18): run with -race on the tree before the fix. Belongs in internal/server.
package server

import (
	"sync"
	"testing"
	"time"
)

func TestRace_HealthCheckCompletedVsDrain(t *testing.T) {
	target, err := NewTarget("localhost:1", TargetOptions{HealthCheckConfig: HealthCheckConfig{Path: "/up", Interval: time.Hour, Timeout: time.Second}})
	if err != nil {
		t.Fatal(err)
	}
	target.becameHealthy = make(chan bool)
	var wg sync.WaitGroup
	wg.Add(2)
	go func() { defer wg.Done(); for i := 0; i < 200; i++ { target.HealthCheckCompleted(i%2 == 0) } }()
	go func() { defer wg.Done(); for i := 0; i < 200; i++ { target.Drain(time.Millisecond) } }()
	wg.Wait()
}
