// Demonstration of known finding K2 (property C18). Belongs in package directory internal/server.
// Run with the race detector: go test -race -overlay <ov.json> -vet=off -count=1 -run TestK2 ./internal/server
package server

import (
	"net/http"
	"net/http/httptest"
	"sync"
	"testing"

	"github.com/stretchr/testify/require"
)

// Requests are served while the operator runs `rollout deploy`, `rollout set`
// and `rollout stop`: Service.rollout / Service.rolloutController are written
// under serviceLock but read by loadBalancerForRequest without it.
func TestK2_RequestsRaceWithRolloutCommands(t *testing.T) {
	router := testRouter(t)
	_, first := testBackend(t, "first", http.StatusOK)
	_, second := testBackend(t, "second", http.StatusOK)
	require.NoError(t, router.DeployService("service1", []string{first}, defaultServiceOptions, defaultTargetOptions, DefaultDeployTimeout, DefaultDrainTimeout))

	var wg sync.WaitGroup
	wg.Add(2)
	go func() {
		defer wg.Done()
		for i := 0; i < 200; i++ {
			req := httptest.NewRequest(http.MethodGet, "http://example.com/", nil)
			req.AddCookie(&http.Cookie{Name: "kamal-rollout", Value: "1"})
			router.ServeHTTP(httptest.NewRecorder(), req)
		}
	}()
	go func() {
		defer wg.Done()
		for i := 0; i < 5; i++ {
			require.NoError(t, router.SetRolloutTargets("service1", []string{second}, DefaultDeployTimeout, DefaultDrainTimeout))
			require.NoError(t, router.SetRolloutSplit("service1", 50, nil))
			require.NoError(t, router.StopRollout("service1"))
		}
	}()
	wg.Wait()
}
