// Demonstration of known finding K5 (properties C10, C06). Belongs in package directory internal/server.
package server

import (
	"net/http"
	"net/http/httptest"
	"sync/atomic"
	"testing"
	"time"

	"github.com/stretchr/testify/require"
)

// `rollout stop` issued while a redeploy of the same service is waiting for its
// new targets is undone when the redeploy installs its copy of the service:
// the copy took the split (a pointer to the rollout controller) before the stop.
func TestK5_RolloutStopDuringARedeployIsNotUndone(t *testing.T) {
	router := testRouter(t)
	_, first := testBackend(t, "first", http.StatusOK)
	_, rollout := testBackend(t, "rollout", http.StatusOK)

	var healthy atomic.Bool
	_, third := testBackendWithHandler(t, func(w http.ResponseWriter, r *http.Request) {
		if r.URL.Path == "/up" && !healthy.Load() {
			w.WriteHeader(http.StatusServiceUnavailable)
			return
		}
		w.Write([]byte("third"))
	})

	require.NoError(t, router.DeployService("service1", []string{first}, defaultServiceOptions, defaultTargetOptions, DefaultDeployTimeout, DefaultDrainTimeout))
	require.NoError(t, router.SetRolloutTargets("service1", []string{rollout}, DefaultDeployTimeout, DefaultDrainTimeout))
	require.NoError(t, router.SetRolloutSplit("service1", 100, nil))

	deployed := make(chan error, 1)
	go func() {
		deployed <- router.DeployService("service1", []string{third}, defaultServiceOptions, defaultTargetOptions, 5*time.Second, time.Second)
	}()
	time.Sleep(200 * time.Millisecond) // the redeploy is waiting for "third" to become healthy

	require.NoError(t, router.StopRollout("service1"))
	healthy.Store(true)
	require.NoError(t, <-deployed)

	req := httptest.NewRequest(http.MethodGet, "http://example.com/", nil)
	req.AddCookie(&http.Cookie{Name: "kamal-rollout", Value: "1"})
	w := httptest.NewRecorder()
	router.ServeHTTP(w, req)
	if body := w.Body.String(); body != "third" {
		t.Fatalf("K5: after `rollout stop` a request with the rollout cookie was answered by %q, not by the active target", body)
	}
}
