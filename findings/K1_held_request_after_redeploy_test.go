// Demonstration of known finding K1 (property C07). Belongs in package directory internal/server.
// Run: go test -overlay <ov.json> -vet=off -count=1 -run TestK1 ./internal/server   (see /verif/findings/README)
package server

import (
	"net/http"
	"net/http/httptest"
	"testing"
	"time"

	"github.com/stretchr/testify/require"
)

// deploy A, pause, send a request (held), deploy B, resume: C07 says the held
// request is forwarded to the targets the service has at that moment (B).
func TestK1_HeldRequestIsForwardedToTheTargetsOfTheMomentOfResume(t *testing.T) {
	router := testRouter(t)
	_, first := testBackend(t, "first", http.StatusOK)
	_, second := testBackend(t, "second", http.StatusOK)

	require.NoError(t, router.DeployService("service1", []string{first}, defaultServiceOptions, defaultTargetOptions, DefaultDeployTimeout, DefaultDrainTimeout))
	require.NoError(t, router.PauseService("service1", time.Second, 5*time.Second))

	type result struct {
		status int
		body   string
	}
	held := make(chan result, 1)
	go func() {
		req := httptest.NewRequest(http.MethodGet, "http://example.com/", nil)
		w := httptest.NewRecorder()
		router.ServeHTTP(w, req)
		held <- result{w.Result().StatusCode, w.Body.String()}
	}()
	time.Sleep(100 * time.Millisecond)

	require.NoError(t, router.DeployService("service1", []string{second}, defaultServiceOptions, defaultTargetOptions, DefaultDeployTimeout, time.Second))
	require.NoError(t, router.ResumeService("service1"))

	r := <-held
	if r.status != http.StatusOK || r.body != "second" {
		t.Fatalf("K1: held request was answered %d %q, not 200 \"second\"", r.status, r.body)
	}
}
