#!/bin/bash
# confirm_seed.sh <seed dir>: in a scratch copy of /repo, run the seed's demonstration with and without its patch.
# Expected: demo FAILS with the patch, PASSES without. Writes <seed dir>/confirmation.txt.
set -u
d=$1
export GOFLAGS=-mod=mod GOPROXY=off
s=$(mktemp -d /tmp/kpv-seed-XXXXXX)
trap 'rm -rf "$s"' EXIT
rsync -a --exclude .git /repo/ "$s"/
pkg=$(head -3 "$d/demo_test.go" | grep -o 'internal/[a-z]*' | head -1)
[ -z "$pkg" ] && pkg=internal/server
cp "$d/demo_test.go" "$s/$pkg/zz_demo_test.go"
cd "$s"
run() { go test -vet=off -count=1 -timeout 300s "./$pkg" -run 'Demo' 2>&1 | grep -E "^(--- |ok|FAIL|PASS|panic)" | head -20; }
echo "## clean tree" > "$d/confirmation.txt"
run >> "$d/confirmation.txt"; clean=$(grep -c "^ok" "$d/confirmation.txt")
patch -p1 -s < "$d/patch.diff" || { echo "patch does not apply" >> "$d/confirmation.txt"; exit 2; }
go build ./... || { echo "does not build" >> "$d/confirmation.txt"; exit 2; }
echo "## changed tree" >> "$d/confirmation.txt"
run >> "$d/confirmation.txt"; bad=$(sed -n '/## changed/,$p' "$d/confirmation.txt" | grep -c "^FAIL")
if [ "$clean" -ge 1 ] && [ "$bad" -ge 1 ]; then echo "confirmed: demo passes on the clean tree and fails with the change" >> "$d/confirmation.txt"; echo "$d confirmed"; else echo "NOT CONFIRMED" >> "$d/confirmation.txt"; echo "$d NOT confirmed"; fi
