#!/bin/bash
# run_seeds.sh [-P n]: run every seeded change under /verif/seeded against its property's quick check (scratch copies),
# write <seed>/detected.txt, and print a summary. Exit 1 if any seeded change is missed.
P=${1:-3}
ls -d /verif/seeded/*/ | xargs -n1 basename | xargs -P "$P" -I{} bash -c 'id={}; prop=${id%-*}; /verif/tools/seedtest.sh /verif/seeded/$id/patch.diff $prop > /verif/seeded/$id/detected.txt 2>&1'
miss=0
for d in /verif/seeded/*/; do id=$(basename $d); if grep -q "^exit=1" $d/detected.txt; then echo "detected $id: $(grep -a -m1 'failed obligation' $d/detected.txt | cut -c1-160)"; else echo "MISSED   $id: $(grep -a '^exit=' $d/detected.txt)"; miss=1; fi; done
exit $miss
