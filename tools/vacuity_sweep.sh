#!/bin/bash
# Whole-contract-base variant of vacuity_probe.sh: every function under contract
# (kpv list, marked C) gets `ensures zz_probe: true ==> false`. A proof of that
# clause on a path means the path's assumptions are contradictory: fast proofs
# are dead paths (the path-feasible guard already reports those as unreachable),
# SLOW proofs are hidden contradictions the 2-second guard misses.
# Usage: tools/vacuity_sweep.sh [batch size]   (output: one line per function/position/class)
set -u
export GOFLAGS=-mod=mod GOPROXY=off
KPV=${KPV:-/verif/bin/kpv}
N=${1:-12}
mapfile -t keys < <("$KPV" list 2>/dev/null | awk '$1=="C"{ $1=""; sub(/^ /,""); print }' | grep -v '\$')
i=0
while [ $i -lt ${#keys[@]} ]; do
  args=()
  for k in "${keys[@]:$i:$N}"; do args+=("$k|true"); done
  TMO=${TMO:-10000} "$(dirname "$0")/vacuity_probe.sh" "${args[@]}"
  i=$((i+N))
done
