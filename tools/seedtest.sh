#!/bin/bash
# seedtest.sh <patch.diff> <property> [tier]: apply a seeded change to /repo, run the property's check, undo it.
set -u
patch=$1; prop=$2; tier=${3:-quick}
cd /repo || exit 2
if ! git diff --quiet; then echo "seedtest: /repo is dirty"; exit 2; fi
git apply "$patch" || { echo "seedtest: patch does not apply"; exit 2; }
/verif/bin/kpv check --property "$prop" --tier "$tier" --no-evidence 2>&1 | grep -a -E "^(C[0-9]+:|VIOLATION|  failed|kpv:)" | cut -c1-400
rc=${PIPESTATUS[0]}
git checkout -- . && git clean -fdq
echo "exit=$rc"
