#!/bin/bash
# seedtest.sh <patch.diff> <property> [tier]: apply a change to a scratch copy of /repo (outside /repo and /verif),
# run the property's check against that copy, remove the copy. Prints the check's summary lines and "exit=<code>".
set -u
patch=$1; prop=$2; tier=${3:-quick}
s=$(mktemp -d /tmp/kpv-seedtest-XXXXXX)
trap 'rm -rf "$s"' EXIT
rsync -a --exclude .git /repo/ "$s"/
( cd "$s" && patch -p1 -s < "$patch" ) || { echo "seedtest: patch does not apply"; echo "exit=2"; exit 2; }
/verif/bin/kpv check --repo "$s" --property "$prop" --tier "$tier" --no-evidence 2>&1 | grep -a -E "^(C[0-9]+:|VIOLATION|  failed|kpv:)" | cut -c1-400
echo "exit=${PIPESTATUS[0]}"
