#!/bin/bash
# Success-path vacuity probe (validating the verifier, DESIGN §9/§11.4).
#
# For each "<function key>|<condition>" given (default: the functions that use a
# constructor through its contract), a scratch copy of /repo gets one extra
# clause `ensures zz_probe: <condition> ==> false` on that function and
# `kpv verify` is run on it. The clause is false on every path where the
# condition can hold, so on a sound encoding it must NOT be proved there:
#   FAIL/unknown  = good (the path is not vacuous, or not detectably so)
#   ok/unsat      = the assumptions of that path are contradictory given the
#                   condition: everything proved on it is proved from `false`
#                   (or the path is dead code under the contracts in force).
# Paths on which the condition is concretely false (error returns) prove the
# clause trivially in a few ms; the report therefore separates fast (<1 s) from
# slow proofs. Nothing is written to /repo; the scratch copy is removed.
set -u
export GOFLAGS=-mod=mod GOPROXY=off
KPV=${KPV:-/verif/bin/kpv}
TMO=${TMO:-20000}
if [ $# -eq 0 ]; then
  set -- '(*server.Service).UnmarshalJSON|err == nil' \
         '(*server.Router).deployTargetsIntoService|result == nil' \
         '(*server.Router).findOrCreateService|err == nil'
fi
S=$(mktemp -d /var/tmp/kpv-probe-XXXXXX)
trap 'rm -rf "$S"' EXIT
rsync -a --exclude .git /repo/ "$S/repo/"
keys=()
for spec in "$@"; do
  key=${spec%%|*}; cond=${spec#*|}
  keys+=("$key")
  python3 - "$S/repo" "$key" "$cond" <<'PY'
import sys,glob
root,key,cond=sys.argv[1:4]
done=False
for p in glob.glob(root+'/internal/*/zz_contracts_verif.go'):
    s=open(p).read()
    h='//@ func '+key+'\n'
    if h in s:
        s=s.replace(h,h+'//@ ensures[C06] zz_probe: '+cond+' ==> false\n',1)
        open(p,'w').write(s); done=True
if not done: sys.exit('no contract for '+key)
PY
done
"$KPV" verify --repo "$S/repo" --timeout "$TMO" "${keys[@]}" 2>&1 | grep 'ensures:zz_probe' | awk '
 { st=$1; t=$3; sub("ms","",t); split($0,a,"/ensures:zz_probe"); fn=a[1]; sub(/^.* /,"",fn); pos=$NF
   c=(st=="FAIL")?"not-proved(good)":((t+0<1000)?"proved-fast(condition false on path)":"PROVED-SLOW(vacuous or dead path)")
   n[fn" "pos" "c]++ }
 END { for(k in n) print n[k], k }' | sort -k2
