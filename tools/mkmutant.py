#!/usr/bin/env python3
"""mkmutant.py <kind:mutants|neutral> <name> <property[,property]> <expect-substring or -> <file> <old> <new> [--notest]
Creates /verif/selftest/<kind>/<name>.patch by replacing one occurrence of <old> by <new> in /repo/<file>
(in a scratch copy), checks that it compiles and passes the repository's test suite, and records the result."""
import sys, subprocess, tempfile, shutil, os
kind, name, props, expect, file, old, new = sys.argv[1:8]
notest = '--notest' in sys.argv
tmp = tempfile.mkdtemp(prefix='kpv-mut-')
try:
    a = os.path.join(tmp, 'a'); b = os.path.join(tmp, 'b')
    for d in (a, b):
        subprocess.check_call(['rsync', '-a', '--exclude', '.git', '/repo/', d + '/'])
    p = os.path.join(b, file)
    s = open(p).read()
    if s.count(old) != 1:
        sys.exit(f"pattern occurs {s.count(old)} times in {file}")
    open(p, 'w').write(s.replace(old, new))
    env = dict(os.environ, GOFLAGS='-mod=mod', GOPROXY='off')
    r = subprocess.run(['go', 'build', './...'], cwd=b, env=env, capture_output=True, text=True)
    if r.returncode != 0:
        sys.exit("does not compile:\n" + r.stderr)
    suite = "not run"
    if not notest:
        r = subprocess.run(['go', 'test', '-vet=off', '-count=1', './...'], cwd=b, env=env, capture_output=True, text=True)
        suite = "passes" if r.returncode == 0 else "FAILS"
    d = subprocess.run(['diff', '-u', '--label', 'a/' + file, '--label', 'b/' + file, os.path.join(a, file), p], capture_output=True, text=True).stdout
    out = f'/verif/selftest/{kind}/{name}.patch'
    os.makedirs(os.path.dirname(out), exist_ok=True)
    hdr = f"# property: {props}\n"
    if expect != '-':
        hdr += f"# expect: {expect}\n"
    hdr += f"# repository test suite with this change: {suite}\n"
    open(out, 'w').write(hdr + d)
    print(out, "suite:", suite)
finally:
    shutil.rmtree(tmp)
