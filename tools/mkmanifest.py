#!/usr/bin/env python3
"""Regenerates /verif/MANIFEST.json from the table below and validates it."""
import json, subprocess, sys, os

BASELINE = json.load(open('/root/.vp/BASELINE.json'))['cmd']

# property -> (level text, level note, design ref, technique)
CLAIMED = {}
NA = {}

def claim(pid, text, note, ref, technique="contract-based deductive verification: kpv VC generator over go/ssa, obligations discharged by z3 / z3-new / cvc5"):
    CLAIMED[pid] = (text, note, ref, technique)

exec(open('/verif/tools/claims.py').read())

def hook_commits():
    out = subprocess.run(['git', '-C', '/repo', 'log', '--format=%H %s'], capture_output=True, text=True).stdout
    return [l.split()[0] for l in out.splitlines() if ' verif:' in l or l.split(' ',1)[1].startswith('verif')]

m = {
 "version": 1,
 "setup_cmd": "cd /verif/kpv && GOFLAGS=-mod=mod GOPROXY=off go build -o /verif/bin/kpv .",
 "hooks": {
  "guard": "verif",
  "enable": "-tags verif: adds comment-only contract files internal/{server,cmd}/zz_contracts_verif.go (no code)",
  "baseline_off_cmd": BASELINE,
  "source_commits": hook_commits(),
  "add_only": True,
 },
 "engines": [{
   "name": "kpv", "path": "/verif/kpv",
   "serves_properties": sorted(CLAIMED),
   "kind_free_text": "verification-condition generator for Go written for this task: symbolic execution of go/ssa (x/tools v0.29.0) function by function against contracts kept as //@ comments in tag-guarded files of /repo; SMT-LIB obligations raced on z3 4.8.12, z3-new 5.1.0, cvc5 1.0",
 }],
 "checks": [],
 "not_applicable": [],
 "notes": "See /verif/DESIGN.md. Every check rebuilds SSA from /repo's working tree on each run; evidence lists functions under contract, obligations by back end, assumed contracts and abstractions.",
}
for pid in sorted(CLAIMED):
    text, note, ref, tech = CLAIMED[pid]
    m["checks"].append({
      "property_id": pid,
      "quick_cmd": f"/verif/bin/kpv check --property {pid} --tier quick",
      "thorough_cmd": f"/verif/bin/kpv check --property {pid} --tier thorough",
      "evidence_file": f"/verif/evidence/{pid}.json",
      "replay_cmd_template": "/verif/bin/kpv replay {path}",
      "engine": "kpv",
      "level_claimed": {"category": "proof", "text": text, "design_ref": ref},
      "level_note": note,
      "technique": tech,
    })
props = [json.loads(l)['id'] for l in open('/verif/properties.jsonl')]
for pid in props:
    if pid not in CLAIMED:
        m["not_applicable"].append({"property_id": pid, "reason": NA.get(pid, "not claimed yet: the contracts of this property do not all discharge on the unchanged tree in this build of the framework (see DESIGN.md, status)")})
json.dump(m, open('/verif/MANIFEST.json', 'w'), indent=1)
import jsonschema
jsonschema.validate(m, json.load(open('/root/.vp/MANIFEST.schema.json')))
print("MANIFEST.json written:", len(m["checks"]), "checks,", len(m["not_applicable"]), "not applicable")
