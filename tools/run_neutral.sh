#!/bin/bash
# run_neutral.sh [n] [glob]: run every behaviour-preserving refactoring under /verif/neutral against the quick checks of
# the properties listed in its props.txt (scratch copies). Prints one line per alarm; exit 1 if a refactoring that is
# not listed as a known false alarm in /verif/neutral/README.md raises one.
P=${1:-3}
PAT=${2:-[NMP]*}
for d in /verif/neutral/$PAT/; do id=$(basename $d); for p in $(cat $d/props.txt); do echo "$id $p"; done; done |
  xargs -P "$P" -L 1 bash -c 'out=$(/verif/tools/seedtest.sh /verif/neutral/$0/patch.diff $1 2>&1); echo "$0 $1 $(echo "$out" | grep -a "^exit=") $(echo "$out" | grep -a -m1 "failed obligation" | cut -c1-160)"' > /tmp/run_neutral.out
bad=0
while read id p ex rest; do
  if [ "$ex" != "exit=0" ]; then
    if grep -q "^  $id " /verif/neutral/README.md; then echo "known false alarm $id $p $rest"; else echo "FALSE ALARM $id $p $ex $rest"; bad=1; fi
  fi
done < /tmp/run_neutral.out
echo "neutral: $(wc -l < /tmp/run_neutral.out) runs"
exit $bad
