package main

import (
	"fmt"
	"go/constant"
	"go/token"
	"go/types"
	"regexp"
	"sort"
	"strings"

	"golang.org/x/tools/go/ssa"
)

type Obligation struct {
	Name      string // func/kind:detail#pN
	Group     string // name without the path suffix
	Kind      string // ensures requires frame inv-init inv-pres call-requires safety lemma vacuity lock
	Func      string
	Tags      []string
	Lines     []string // declarations + path script
	Goal      Term
	Pos       string
	Text      string // clause text / source text
	Path      []string
	ExpectSat bool

	Status  string // unsat sat unknown timeout error
	Solver  string
	TimeMs  int64
	Model   string
	Answers map[string]string
	SMTFile string
}

const maxInlineDepth = 8

type discoverCtx struct {
	head         int
	depth        int
	start        *HeapView
	keys         map[string]bool
	all          bool
	events       map[string]bool
	loop         *loopInfo
	timeAdv      bool
	startNow     Term
	startTrace   int
	startEpoch   int
	startSeq     int
	startCounter int
	objs         map[string][]string // key -> loop-invariant objects written
	unknown      map[string]bool     // key -> written at an object that is neither loop-invariant nor fresh
	deep         map[string]bool     // callee-internal events (from may_emit declarations)
}

type topCtx struct {
	contract   *FuncContract
	fn         *ssa.Function
	entry      *HeapView
	entryTop   Term
	entryNow   Term
	params     map[string]Value
	pkg        *types.Package
	inlineSelf bool
	entryLocks string
}

func (e *Exec) oblige(st *State, kind, detail string, goal Term, pos token.Pos, tags []string, text string) {
	if e.disc != nil {
		return
	}
	if goal.S == "true" || st.known(goal) {
		e.trivial++
		return
	}
	group := fnKey(e.fn) + "/" + kind
	if detail != "" {
		group += ":" + detail
	}
	o := &Obligation{Name: group + "#" + st.pathID, Group: group, Kind: kind, Func: fnKey(e.fn), Tags: tags,
		Lines: st.script.lines(), Goal: goal, Pos: e.eng.posString(pos), Text: text, Path: append([]string(nil), st.pcs...)}
	e.obls = append(e.obls, o)
}

// ---------------------------------------------------------------------------
// Running
// ---------------------------------------------------------------------------

func (e *Exec) run(init *State) {
	work := []*State{init}
	for len(work) > 0 {
		st := work[len(work)-1]
		work = work[:len(work)-1]
		succ := e.step(st)
		work = append(work, succ...)
		if e.budget <= 0 {
			e.note(st, "instruction budget exhausted: remaining paths dropped")
			e.aborted = true
			return
		}
	}
}

// step runs the top frame of st until the path forks or ends; it returns the
// successor states.
func (e *Exec) step(st *State) []*State {
	for {
		e.budget--
		if e.budget <= 0 {
			return nil
		}
		fr := st.top()
		if fr.pc >= len(fr.block.Instrs) {
			panic("fell off block " + fr.block.String())
		}
		in := fr.block.Instrs[fr.pc]
		succ, cont := e.execInstr(st, fr, in)
		if !cont {
			return succ
		}
	}
}

func (e *Exec) val(fr *Frame, v ssa.Value) Value {
	switch x := v.(type) {
	case *ssa.Const:
		if x.Value == nil {
			return zeroValue(x.Type())
		}
		return e.constValue(x.Type(), x.Value)
	case *ssa.Global:
		return Value{T: x.Type(), L: []Term{Term{"glob." + smtName(x.Name()), SInt}}, P: &Place{Kind: PGlobal, Glob: x, Typ: x.Type().(*types.Pointer).Elem(), Base: Zero}}
	case *ssa.Function:
		return Value{T: x.Type(), L: []Term{IntLit(int64(1000000 + e.fnID(x)))}, Fn: &FnVal{Fn: x}}
	case *ssa.FreeVar:
		for i, fv := range fr.fn.FreeVars {
			if fv == x {
				return fr.bind[i]
			}
		}
		panic("free var not bound: " + x.Name())
	case *ssa.Builtin:
		return Value{T: x.Type()}
	}
	if val, ok := fr.env[v]; ok {
		return val
	}
	panic(fmt.Sprintf("no value for %s (%T) in %s", v.Name(), v, fr.fn))
}

func (e *Exec) setVal(st *State, fr *Frame, v ssa.Value, val Value) {
	// name leaves for readability and sharing
	for i := range val.L {
		val.L[i] = e.define(st, fr.fn.Name()+"."+v.Name(), val.L[i])
	}
	if val.T == nil {
		val.T = v.Type()
	}
	fr.env[v] = val
}

func (e *Exec) freshValue(st *State, t types.Type, hint string) Value {
	if tup, ok := t.(*types.Tuple); ok {
		v := Value{T: t}
		for i := 0; i < tup.Len(); i++ {
			v.Tup = append(v.Tup, e.freshValue(st, tup.At(i).Type(), fmt.Sprintf("%s.%d", hint, i)))
		}
		return v
	}
	ls := flatten(t)
	v := Value{T: t, L: make([]Term, len(ls))}
	for i, l := range ls {
		v.L[i] = e.freshConst(hint+l.Suffix, l.Sort)
	}
	e.assumeLoaded(st, v)
	return v
}

func (e *Exec) loadGlobal(st *State, g *ssa.Global, view *HeapView) Value {
	t := g.Type().(*types.Pointer).Elem()
	if c, ok := e.eng.constGlobals[g]; ok {
		v := e.constValue(c.Type(), c.Value)
		v.T = t
		return v
	}
	if _, ok := e.eng.errGlobals[g]; ok {
		// immutable error constant: a distinct non-nil error object that exists from the start
		var all []Term
		var mine Term
		var names []string
		for og := range e.eng.errGlobals {
			names = append(names, og.Pkg.Pkg.Name()+"."+og.Name())
		}
		sort.Strings(names)
		for _, n := range names {
			c := e.declare("errobj."+smtName(n), SInt)
			all = append(all, c)
			if n == g.Pkg.Pkg.Name()+"."+g.Name() {
				mine = c
			}
		}
		top := st.allocTop
		if e.top != nil {
			top = e.top.entryTop
		}
		st.assert(And(Lt(Zero, mine), Le(mine, top)))
		if len(all) > 1 {
			st.assert(App(SBool, "distinct", all...))
		}
		return Value{T: t, L: []Term{IntLit(int64(e.eng.typeID(errorStringType()))), mine}}
	}
	if !isRepoPkg(g.Pkg.Pkg) && isErrorType(t) {
		// exported error values of libraries (context.Canceled, net.ErrClosed, ...): constants
		n := "gc." + smtName(g.Pkg.Pkg.Path()+"."+g.Name())
		v := Value{T: t, L: []Term{e.declare(n+".ityp", SInt), e.declare(n+".ival", SInt)}}
		st.assert(Lt(Zero, v.L[0]))
		return v
	}
	p := &Place{Kind: PGlobal, Glob: g, Typ: t, Base: Zero}
	v := e.loadPlace(st, p, view)
	if view == nil {
		e.assumeLoaded(st, v)
	}
	return v
}

var errStrT types.Type

func errorStringType() types.Type {
	if errStrT == nil {
		errStrT = types.NewPointer(types.NewNamed(types.NewTypeName(0, nil, "errors.errorString", nil), types.NewStruct(nil, nil), nil))
	}
	return errStrT
}

// nonNil emits the nil-dereference obligation for pointer value v.
func (e *Exec) derefPlace(st *State, v Value, pos token.Pos, what string) *Place {
	if v.P != nil {
		if v.P.Kind == PObj && !st.fresh[v.P.Base.S] {
			e.oblige(st, "safety", "nil-deref:"+what, Neq(v.P.Base, Zero), pos, nil, what)
			st.assert(Neq(v.P.Base, Zero))
		}
		return v.P
	}
	pt, ok := v.T.Underlying().(*types.Pointer)
	if !ok {
		panic(fmt.Sprintf("deref of non-pointer %v", v.T))
	}
	if !st.fresh[v.L[0].S] {
		e.oblige(st, "safety", "nil-deref:"+what, Neq(v.L[0], Zero), pos, nil, what)
		st.assert(Neq(v.L[0], Zero))
	}
	return &Place{Kind: PObj, Base: v.L[0], Typ: pt.Elem()}
}

func (e *Exec) execInstr(st *State, fr *Frame, in ssa.Instruction) ([]*State, bool) {
	switch x := in.(type) {
	case *ssa.DebugRef:
		if id, ok := x.Expr.(interface{ String() string }); ok {
			_ = id
		}
		if x.Expr != nil {
			if idn, ok := x.Expr.(interface{ End() token.Pos }); ok {
				_ = idn
			}
		}
		if c, isC := x.X.(*ssa.Const); isC && c.Value == nil && !x.IsAddr {
			// declaration-site reference to the zero value: not the variable's value
			fr.pc++
			return nil, true
		}
		if obj := x.Object(); obj != nil {
			if v, isVar := obj.(*types.Var); !isVar || v.IsField() {
				// selectors (x.f) are not variables
				fr.pc++
				return nil, true
			}
			if x.IsAddr {
				fr.names["&"+obj.Name()] = x.X
				delete(fr.names, obj.Name())
			} else {
				fr.names[obj.Name()] = x.X
				delete(fr.names, "&"+obj.Name())
			}
		}
		fr.pc++
		return nil, true

	case *ssa.Alloc:
		t := x.Type().(*types.Pointer).Elem()
		r := e.alloc(st, x.Comment)
		p := &Place{Kind: PObj, Base: r, Typ: t}
		e.initPlace(st, p)
		e.setVal(st, fr, x, Value{T: x.Type(), L: []Term{r}, P: p})
		fr.pc++
		return nil, true

	case *ssa.FieldAddr:
		base := e.val(fr, x.X)
		bp := e.derefPlace(st, base, x.Pos(), e.eng.srcText(x.Pos()))
		stT := bp.Typ
		sst := stT.Underlying().(*types.Struct)
		fp := fieldPlace(bp, stT, sst, x.Field)
		leaf := App(SInt, "fptr", fp.Base, IntLit(int64(e.pathID(placeKeyOnly(fp)))))
		e.declareFun("fptr", []Sort{SInt, SInt}, SInt)
		fr.env[x] = Value{T: x.Type(), L: []Term{leaf}, P: fp}
		fr.pc++
		return nil, true

	case *ssa.Field:
		base := e.val(fr, x.X)
		if transparentStruct(base.T) {
			e.setVal(st, fr, x, fieldOf(base, x.Field))
		} else {
			e.note(st, "field of opaque struct value "+typeKey(base.T))
			e.setVal(st, fr, x, e.freshValue(st, x.Type(), "opqfield"))
		}
		fr.pc++
		return nil, true

	case *ssa.IndexAddr:
		base := e.val(fr, x.X)
		idx := e.val(fr, x.Index).Leaf()
		what := e.eng.srcText(x.Pos())
		var p *Place
		switch u := base.T.Underlying().(type) {
		case *types.Slice:
			e.oblige(st, "safety", "index:"+what, And(Le(Zero, idx), Lt(idx, sliceLen(base))), x.Pos(), nil, what)
			st.assert(And(Le(Zero, idx), Lt(idx, sliceLen(base))))
			p = &Place{Kind: PElem, Base: sliceBase(base), Idx: Add(sliceOff(base), idx), Typ: u.Elem()}
		case *types.Pointer:
			arr := u.Elem().Underlying().(*types.Array)
			bp := e.derefPlace(st, base, x.Pos(), what)
			if !isLit(idx) {
				e.oblige(st, "safety", "index:"+what, And(Le(Zero, idx), Lt(idx, IntLit(arr.Len()))), x.Pos(), nil, what)
			}
			p = &Place{Kind: PElem, Base: bp.Base, Idx: idx, Typ: arr.Elem()}
		default:
			panic("IndexAddr on " + base.T.String())
		}
		e.declareFun("eptr", []Sort{SInt, SInt}, SInt)
		fr.env[x] = Value{T: x.Type(), L: []Term{App(SInt, "eptr", p.Base, p.Idx)}, P: p}
		fr.pc++
		return nil, true

	case *ssa.Index:
		base := e.val(fr, x.X)
		idx := e.val(fr, x.Index).Leaf()
		what := e.eng.srcText(x.Pos())
		if isString(base.T) {
			ln := App(SInt, "str.len", base.L[0])
			e.oblige(st, "safety", "index:"+what, And(Le(Zero, idx), Lt(idx, ln)), x.Pos(), nil, what)
			e.setVal(st, fr, x, scalar(x.Type(), App(SInt, "str.to_code", App(SStr, "str.at", base.L[0], idx))))
		} else {
			e.note(st, "index of array value")
			e.setVal(st, fr, x, e.freshValue(st, x.Type(), "arrelem"))
		}
		fr.pc++
		return nil, true

	case *ssa.UnOp:
		return e.execUnOp(st, fr, x)

	case *ssa.Store:
		e.foreignGlobalStore(st, fr, x)
		addr := e.val(fr, x.Addr)
		p := e.derefPlace(st, addr, x.Pos(), e.eng.srcText(x.Pos()))
		v := e.val(fr, x.Val)
		e.storeWithHooks(st, p, v, x.Pos())
		fr.pc++
		return nil, true

	case *ssa.BinOp:
		a, b := e.val(fr, x.X), e.val(fr, x.Y)
		e.setVal(st, fr, x, e.binop(st, x, a, b))
		fr.pc++
		return nil, true

	case *ssa.Phi:
		panic("phi outside block entry")

	case *ssa.Convert:
		e.setVal(st, fr, x, e.convert(st, x, e.val(fr, x.X)))
		fr.pc++
		return nil, true

	case *ssa.ChangeType:
		v := e.val(fr, x.X)
		v.T = x.Type()
		fr.env[x] = v
		fr.pc++
		return nil, true

	case *ssa.ChangeInterface:
		v := e.val(fr, x.X)
		v.T = x.Type()
		fr.env[x] = v
		fr.pc++
		return nil, true

	case *ssa.MakeInterface:
		fr.env[x] = e.makeInterface(st, x.Type(), e.val(fr, x.X))
		fr.pc++
		return nil, true

	case *ssa.TypeAssert:
		e.typeAssert(st, fr, x)
		fr.pc++
		return nil, true

	case *ssa.Extract:
		t := e.val(fr, x.Tuple)
		if x.Index >= len(t.Tup) {
			panic(fmt.Sprintf("extract %d of %d-tuple in %s", x.Index, len(t.Tup), fr.fn))
		}
		fr.env[x] = t.Tup[x.Index]
		fr.pc++
		return nil, true

	case *ssa.MakeClosure:
		fn := x.Fn.(*ssa.Function)
		var bind []Value
		for _, b := range x.Bindings {
			bind = append(bind, e.val(fr, b))
		}
		r := e.alloc(st, "closure")
		// record the closure's function identity and first binding on the heap
		// (argument provenance obligations read these)
		e.storeGhost(st, "closure$fn", SInt, r, IntLit(int64(e.fnID(fn))))
		for i, b := range bind {
			if len(b.L) == 1 && b.L[0].Sort == SInt {
				e.storeGhost(st, fmt.Sprintf("closure$b%d", i), SInt, r, b.L[0])
			}
		}
		fr.env[x] = Value{T: x.Type(), L: []Term{r}, Fn: &FnVal{Fn: fn, Bind: bind}}
		fr.pc++
		return nil, true

	case *ssa.MakeMap:
		r := e.alloc(st, "map")
		mt := x.Type().Underlying().(*types.Map)
		e.mapInit(st, mt, r)
		fr.env[x] = Value{T: x.Type(), L: []Term{r}}
		fr.pc++
		return nil, true

	case *ssa.MakeSlice:
		r := e.alloc(st, "slice")
		ln := e.val(fr, x.Len).Leaf()
		what := e.eng.srcText(x.Pos())
		e.oblige(st, "safety", "makeslice:"+what, Le(Zero, ln), x.Pos(), nil, what)
		el := x.Type().Underlying().(*types.Slice).Elem()
		e.initElems(st, el, r)
		fr.env[x] = mkSlice(x.Type(), r, Zero, ln)
		fr.pc++
		return nil, true

	case *ssa.MakeChan:
		r := e.alloc(st, "chan")
		fr.env[x] = Value{T: x.Type(), L: []Term{r}}
		fr.pc++
		return nil, true

	case *ssa.Slice:
		e.execSlice(st, fr, x)
		fr.pc++
		return nil, true

	case *ssa.Lookup:
		e.execLookup(st, fr, x)
		fr.pc++
		return nil, true

	case *ssa.MapUpdate:
		m := e.val(fr, x.Map)
		k := e.val(fr, x.Key)
		v := e.val(fr, x.Value)
		what := e.eng.srcText(x.Pos())
		e.oblige(st, "safety", "nil-map:"+what, Neq(m.L[0], Zero), x.Pos(), nil, what)
		e.mapStore(st, m, k, v)
		fr.pc++
		return nil, true

	case *ssa.Range:
		e.execRange(st, fr, x)
		fr.pc++
		return nil, true

	case *ssa.Next:
		e.execNext(st, fr, x)
		fr.pc++
		return nil, true

	case *ssa.Call:
		return e.execCall(st, fr, x, &x.Call, x, 0)

	case *ssa.Defer:
		d := Deferred{Common: &x.Call, Pos: x.Pos()}
		if !x.Call.IsInvoke() {
			if _, ok := x.Call.Value.(*ssa.Builtin); !ok {
				d.Fn = e.val(fr, x.Call.Value)
			}
		} else {
			d.Fn = e.val(fr, x.Call.Value)
		}
		for _, a := range x.Call.Args {
			d.Args = append(d.Args, e.val(fr, a))
		}
		fr.defers = append(fr.defers, d)
		fr.pc++
		return nil, true

	case *ssa.RunDefers:
		if len(fr.defers) == 0 {
			fr.pc++
			return nil, true
		}
		d := fr.defers[len(fr.defers)-1]
		fr.defers = fr.defers[:len(fr.defers)-1]
		return e.execDeferred(st, fr, d)

	case *ssa.Go:
		return e.execGo(st, fr, x)

	case *ssa.Select:
		return e.execSelect(st, fr, x)

	case *ssa.Send:
		e.note(st, "channel send abstracted")
		e.emit(st, Event{Name: "Send", Pos: x.Pos()})
		fr.pc++
		return nil, true

	case *ssa.If:
		c := e.val(fr, x.Cond).Leaf()
		tb, fb := fr.block.Succs[0], fr.block.Succs[1]
		var out []*State
		what := e.eng.srcText(x.Cond.Pos())
		if c.S != "false" {
			s1 := st
			if c.S != "true" {
				s1 = st.clone()
				s1.pathID = e.newPathID()
				s1.assertBranch(c)
				s1.pcs = append(s1.pcs, fmt.Sprintf("%s: %s", e.eng.posString(x.Cond.Pos()), what))
			}
			if e.enter(s1, tb) {
				out = append(out, s1)
			}
			if c.S == "true" {
				return out, false
			}
		}
		nc := Not(c)
		if c.S != "false" {
			st.assertBranch(nc)
			st.pcs = append(st.pcs, fmt.Sprintf("%s: !(%s)", e.eng.posString(x.Cond.Pos()), what))
		}
		if e.enter(st, fb) {
			out = append(out, st)
		}
		return out, false

	case *ssa.Jump:
		if e.enter(st, fr.block.Succs[0]) {
			return []*State{st}, false
		}
		return nil, false

	case *ssa.Return:
		var res []Value
		for _, r := range x.Results {
			res = append(res, e.val(fr, r))
		}
		return e.doReturn(st, fr, res, x.Pos())

	case *ssa.Panic:
		what := e.eng.srcText(x.Pos())
		e.oblige(st, "safety", "panic:"+what, False, x.Pos(), nil, "explicit panic reachable")
		return e.doPanic(st, x.Pos())
	}
	panic(fmt.Sprintf("unsupported instruction %T: %s in %s", in, in, fr.fn))
}

func placeKeyOnly(p *Place) string {
	pre, _ := placePrefix(p)
	return pre
}

func (e *Exec) pathID(s string) int {
	if id, ok := e.pathIDs[s]; ok {
		return id
	}
	id := len(e.pathIDs) + 1
	e.pathIDs[s] = id
	return id
}

func (e *Exec) fnID(fn *ssa.Function) int {
	return e.eng.typeID(types.NewNamed(types.NewTypeName(0, nil, "fn:"+fnKey(fn), nil), types.Typ[types.Int], nil))
}

func (e *Exec) storeGhost(st *State, key string, sort Sort, obj Term, v Term) {
	arr := e.cur(st, "ghost:"+key, sort, false)
	e.setHeap(st, "ghost:"+key, Store(arr, obj, v))
}

func (e *Exec) loadGhost(st *State, key string, sort Sort, obj Term) Term {
	return Select(e.cur(st, "ghost:"+key, sort, false), obj)
}

// initPlace zero-initialises a freshly allocated place.
func (e *Exec) initPlace(st *State, p *Place) {
	if arr, ok := p.Typ.Underlying().(*types.Array); ok {
		e.initElems(st, arr.Elem(), p.Base)
		return
	}
	e.storePlace(st, p, zeroValue(p.Typ))
	// a struct declared outside the repository is opaque by value, but its
	// fields are addressed one by one through pointers: a new one has zero fields
	if sst, ok := p.Typ.Underlying().(*types.Struct); ok && !transparentStruct(p.Typ) && p.Kind == PObj && sst.NumFields() <= 64 {
		for i := 0; i < sst.NumFields(); i++ {
			ft := sst.Field(i).Type()
			if _, isArr := ft.Underlying().(*types.Array); isArr {
				continue
			}
			if _, isSt := ft.Underlying().(*types.Struct); isSt {
				continue
			}
			fp := fieldPlace(p, p.Typ, sst, i)
			e.storePlace(st, fp, zeroValue(ft))
		}
	}
}

func (e *Exec) initElems(st *State, el types.Type, base Term) {
	for _, l := range flatten(el) {
		key := "elem:" + typeKey(el) + l.Suffix
		arr := e.cur(st, key, l.Sort, true)
		e.setHeap(st, key, Store(arr, base, constArr(ArrS(SInt, l.Sort), zeroOf(l.Sort))))
	}
}

func (e *Exec) storeWithHooks(st *State, p *Place, v Value, pos token.Pos) {
	e.lockCheckAccess(st, p, true, pos)
	if p.Kind == PField {
		if pre, _ := placePrefix(p); immutableGhost(pre) && !st.fresh[p.Base.S] && e.disc == nil {
			if !(e.top != nil && e.top.contract != nil && e.top.contract.Attrs["constructs"] != "" && e.top.params[e.top.contract.Attrs["constructs"]].L != nil && e.top.params[e.top.contract.Attrs["constructs"]].L[0].S == p.Base.S) {
				what := e.eng.srcText(pos)
				e.oblige(st, "immutable", pre+":"+what, False, pos, nil, "store to "+pre+", which is declared immutable after construction")
			}
		}
	}
	if p.Kind == PField || p.Kind == PObj {
		if pre, _ := placePrefix(p); e.eng.specs.StableNonNil[pre] && len(v.L) == 1 {
			// history constraint: this field never goes back to nil on a published object
			unpub := false
			if e.top != nil && e.top.contract != nil && e.top.contract.Attrs["unpublished"] != "" {
				if v, ok := e.top.params[e.top.contract.Attrs["unpublished"]]; ok && len(v.L) == 1 && v.L[0].S == p.Base.S {
					unpub = true // the receiver is still being built (e.g. UnmarshalJSON)
				}
			}
			if !(st.fresh[p.Base.S] && !st.published[p.Base.S]) && !unpub {
				what := e.eng.srcText(pos)
				e.oblige(st, "stable", "nonnil:"+pre+":"+what, Neq(v.L[0], Zero), pos, nil, "store to "+pre+" must keep it non-nil")
			}
		}
	}
	// a reference stored anywhere but into a local variable's own cell is handed out
	if !(p.Kind == PObj && st.fresh[p.Base.S] && !st.published[p.Base.S] && strings.HasPrefix(func() string { k, _ := placePrefix(p); return k }(), "cell:")) {
		e.publish(st, v)
	}
	e.storePlace(st, p, v)
	if len(e.eng.specs.Hooks) == 0 || p.Kind == PElem {
		return
	}
	prefix, _ := placePrefix(p)
	for _, h := range e.eng.specs.Hooks {
		if h.Field != prefix {
			continue
		}
		g := e.eng.specs.Ghosts[h.Ghost]
		if g == nil {
			continue
		}
		env := &SpecEnv{e: e, st: st, vars: map[string]Value{
			"obj": {T: tRef, L: []Term{p.Base}}, "val": v}, what: "on_store " + h.Field}
		nv, err := env.evalValue(h.Expr)
		if err != nil {
			panic(err)
		}
		at := p.Base
		if h.At == "val" {
			at = v.L[0]
		}
		e.storeGhost(st, h.Ghost, nv.L[0].Sort, at, nv.L[0])
	}
}

// ---------------------------------------------------------------------------
// Block entry, loops
// ---------------------------------------------------------------------------

func (e *Exec) loops(fn *ssa.Function) map[int]*loopInfo {
	if l, ok := e.loopCache[fn]; ok {
		return l
	}
	l := findLoops(fn)
	e.loopCache[fn] = l
	return l
}

// enter moves the top frame to block `to`; returns false when the path ends
// there (loop back edge).
func (e *Exec) enter(st *State, to *ssa.BasicBlock) bool {
	fr := st.top()
	from := fr.block
	// phis, evaluated simultaneously on the incoming edge
	edge := -1
	for i, p := range to.Preds {
		if p == from {
			edge = i
			break
		}
	}
	var phis []*ssa.Phi
	var vals []Value
	for _, in := range to.Instrs {
		ph, ok := in.(*ssa.Phi)
		if !ok {
			break
		}
		phis = append(phis, ph)
		vals = append(vals, e.val(fr, ph.Edges[edge]))
	}
	for i, ph := range phis {
		v := vals[i]
		v.T = ph.Type()
		fr.env[ph] = v
	}
	fr.prev = from
	fr.block = to
	fr.pc = len(phis)
	// skip DebugRefs directly after phis so names are known for invariants
	li := e.loops(fr.fn)[to.Index]
	if li == nil {
		return true
	}
	if n, ok := constTripCount(li); ok && len(e.loopClauses(fr, li)) == 0 {
		// a loop over a fixed-size array (at most 8 elements) that carries no
		// invariant is simply executed: the index is concrete on every pass
		if fr.unrolled == nil {
			fr.unrolled = map[int]int{}
		}
		fr.unrolled[to.Index]++
		if fr.unrolled[to.Index] <= n+2 {
			return true
		}
	}
	if li.body[from] { // back edge
		if d := e.disc; d != nil && d.head == to.Index && d.depth == len(st.frames) && d.loop.head.Parent() == fr.fn {
			e.recordDiscovery(st)
			return false
		}
		e.checkInvariants(st, fr, li, phis, "inv-pres")
		e.checkGlobalInv(st, to.Instrs[0].Pos())
		if le := fr.loops[to.Index]; le != nil && le.locks != lockSig(st) {
			e.oblige(st, "lock", fmt.Sprintf("loop%d-lockset", li.ordinal), False, to.Instrs[0].Pos(), nil, "lock set differs between loop iterations")
		}
		return false
	}
	// loop entry
	e.checkInvariants(st, fr, li, phis, "inv-init")
	mod := e.discoverLoop(st, li, phis)
	e.havocLoop(st, fr, li, phis, mod)
	if len(mod.keys) > 0 || mod.all {
		// global invariants are implicit loop invariants (checked at entry by
		// the callers' obligations and at every back edge)
		e.assumeGlobalInv(st)
	}
	e.assumeInvariants(st, fr, li, phis)
	fr.loops[to.Index] = &loopEntry{locks: lockSig(st), nTrace: len(st.trace)}
	return true
}

type loopMod struct {
	keys    []string
	all     bool
	events  []string
	timeAdv bool
	objs    map[string][]string
	unknown map[string]bool
	deep    []string
}

// constTripCount recognises `for i := range [N]T{...}` (and `for i := 0; i < N; i++`
// with a literal N): the head compares the index against a constant at most 8.
func constTripCount(li *loopInfo) (int, bool) {
	for _, in := range li.head.Instrs {
		b, ok := in.(*ssa.BinOp)
		if !ok || b.Op != token.LSS {
			continue
		}
		c, ok := b.Y.(*ssa.Const)
		if !ok || c.Value == nil {
			continue
		}
		n, ok := constant.Int64Val(c.Value)
		if !ok || n < 0 || n > 8 {
			continue
		}
		x := b.X
		if a, ok := x.(*ssa.BinOp); ok && a.Op == token.ADD {
			x = a.X
		}
		if ph, ok := x.(*ssa.Phi); ok && ph.Block() == li.head {
			return int(n), true
		}
	}
	return 0, false
}

func (e *Exec) iterOfLoop(fr *Frame, li *loopInfo) *ssa.Range {
	for _, in := range li.head.Instrs {
		if n, ok := in.(*ssa.Next); ok {
			if r, ok := n.Iter.(*ssa.Range); ok {
				return r
			}
		}
	}
	return nil
}

func (e *Exec) havocLoop(st *State, fr *Frame, li *loopInfo, phis []*ssa.Phi, mod *loopMod) {
	for _, ph := range phis {
		fr.env[ph] = e.freshValue(st, ph.Type(), fr.fn.Name()+"."+ph.Name()+".loop")
		if ph.Comment == "rangeindex" {
			st.assert(Le(IntLit(-1), fr.env[ph].L[0]))
		}
	}
	if r := e.iterOfLoop(fr, li); r != nil {
		if it := fr.iters[r]; it != nil {
			it.pos = e.freshConst("iterpos", SInt)
			st.assert(And(Le(Zero, it.pos), Le(it.pos, it.n)))
		}
	}
	if mod.all {
		e.havocAll(st)
	} else {
		entryTop := st.allocTop
		for _, k := range mod.keys {
			s := e.keySort[k]
			old, had := st.heap[k]
			if !had {
				// first touched inside the loop: its pre-loop version is the epoch's initial array
				old = e.declare(h0Name(k, st.epoch), s)
				had = true
			}
			st.heap[k] = e.freshConst("Hl."+k, s)
			if had && mod.unknown != nil && !mod.unknown[k] && strings.HasPrefix(string(s), "(Array Int ") {
				// the loop writes this array only at loop-invariant objects and at
				// objects it allocates itself: everything else keeps its value
				conds := []string{"(<= r " + entryTop.S + ")"}
				for _, o := range mod.objs[k] {
					conds = append(conds, "(not (= r "+o+"))")
				}
				st.assert(Term{fmt.Sprintf("(forall ((r Int)) (! (=> (and %s) (= (select %s r) (select %s r))) :pattern ((select %s r))))", strings.Join(conds, " "), st.heap[k].S, old.S, st.heap[k].S), SBool})
			}
			st.seq++
			st.roots[k] = rootInfo{st.heap[k], st.seq}
			e.rootWF(st, k, st.heap[k], strings.HasPrefix(k, "elem:") || strings.HasPrefix(k, "map"))
			if had {
				e.monotoneLinkFrom(st, k, old, st.heap[k])
			}
		}
	}
	if len(mod.keys) > 0 || mod.all {
		nt := e.freshConst("top.loop", SInt)
		st.assert(Ge(nt, st.allocTop))
		st.allocTop = nt
	}
	if mod.timeAdv {
		nn := e.freshConst("now.loop", SInt)
		st.assert(Ge(nn, st.now))
		st.now = nn
	}
	if len(mod.events) > 0 {
		st.trace = append(st.trace, Event{MayLoop: mod.events, Proven: e.provenTracePreds(fr, li)})
	}
	if len(mod.deep) > 0 {
		st.trace = append(st.trace, Event{MayLoop: mod.deep, Deep: true})
	}
}

// provenTracePreds collects the loop invariants of the form all(E, P) whose P is
// stable (reads the heap only under old(...)).
func (e *Exec) provenTracePreds(fr *Frame, li *loopInfo) map[string][]string {
	out := map[string][]string{}
	var conj func(x *SExpr)
	conj = func(x *SExpr) {
		if x == nil {
			return
		}
		if x.Op == "bin" && x.Name == "&&" {
			conj(x.Args[0])
			conj(x.Args[1])
			return
		}
		if x.Op == "call" && len(x.Args) == 3 && x.Args[0].Op == "id" && x.Args[0].Name == "all" && stableSpecExpr(x.Args[2], false) {
			n := patName(x.Args[1])
			out[n] = append(out[n], x.Args[2].String())
		}
		// none(E) with a bare event name: "no E at all" is its own invariant
		if x.Op == "call" && len(x.Args) == 2 && x.Args[0].Op == "id" && x.Args[0].Name == "none" && x.Args[1].Op == "id" {
			n := patName(x.Args[1])
			out[n] = append(out[n], "#none")
		}
	}
	for _, cl := range e.loopClauses(fr, li) {
		conj(cl.Expr)
	}
	return out
}

// stableSpecExpr: the expression reads memory only inside old(...).
func stableSpecExpr(x *SExpr, underOld bool) bool {
	if x == nil {
		return true
	}
	switch x.Op {
	case "old":
		return true
	case "id":
		// event arguments ($n) and package-level constants are stable; a local
		// variable or a parameter must be written old(x)
		if !underOld && !(strings.HasPrefix(x.Name, "$") || (x.Name != "" && x.Name[0] >= 'A' && x.Name[0] <= 'Z') || x.Name == "_") {
			return false
		}
		return true
	case "sel", "index", "slice":
		if !underOld {
			return false
		}
	case "call":
		if x.Args[0].Op == "id" {
			switch x.Args[0].Name {
			case "ite", "min", "max", "len", "strings.HasPrefix", "strings.HasSuffix", "strings.Contains", "substr", "typeid":
			default:
				if !underOld {
					return false // spec functions and builtins may read the heap
				}
			}
		}
		for _, a := range x.Args[1:] {
			if !stableSpecExpr(a, underOld) {
				return false
			}
		}
		return true
	}
	for _, a := range x.Args {
		if !stableSpecExpr(a, underOld) {
			return false
		}
	}
	return true
}

// discoverLoop symbolically runs the loop body once (no obligations) to find
// which heap arrays it may write and which events it may emit.
func (e *Exec) discoverLoop(st *State, li *loopInfo, phis []*ssa.Phi) *loopMod {
	if len(e.eng.specs.Funcs) >= 0 {
		// explicit "loop n assigns" would go here
	}
	mod := &loopMod{}
	keys := map[string]bool{}
	events := map[string]bool{}
	deepEv := map[string]bool{}
	saved := e.disc
	savedBudget := e.budget
	for round := 0; round < 4; round++ {
		c := st.clone()
		fr := c.top()
		e.havocLoop(c, fr, li, phis, &loopMod{keys: sortedKeys(keys), all: mod.all, timeAdv: mod.timeAdv})
		d := &discoverCtx{head: li.head.Index, depth: len(c.frames), start: c.heapSnapshot(), keys: map[string]bool{}, events: map[string]bool{}, loop: li, startNow: c.now,
			startSeq: c.seq, startCounter: e.counter, objs: map[string][]string{}, unknown: map[string]bool{}, deep: map[string]bool{}}
		e.disc = d
		d.startTrace = len(c.trace)
		d.startEpoch = c.epoch
		e.runDiscovery(c)
		e.disc = saved
		grew := false
		for k := range d.keys {
			if !keys[k] {
				keys[k] = true
				grew = true
			}
		}
		for k := range d.events {
			if !events[k] {
				events[k] = true
				grew = true
			}
		}
		for k := range d.deep {
			if !deepEv[k] {
				deepEv[k] = true
				grew = true
			}
		}
		if d.all && !mod.all {
			mod.all = true
			grew = true
		}
		if d.timeAdv && !mod.timeAdv {
			mod.timeAdv = true
			grew = true
		}
		mod.objs, mod.unknown = d.objs, d.unknown
		if !grew {
			break
		}
	}
	e.budget = savedBudget - (savedBudget-e.budget)/1
	mod.keys = sortedKeys(keys)
	mod.events = sortedKeys(events)
	mod.deep = sortedKeys(deepEv)
	return mod
}

func sortedKeys(m map[string]bool) []string {
	var out []string
	for k := range m {
		out = append(out, k)
	}
	sort.Strings(out)
	return out
}

func (e *Exec) runDiscovery(init *State) {
	work := []*State{init}
	for len(work) > 0 {
		st := work[len(work)-1]
		work = work[:len(work)-1]
		// stop when the loop's frame leaves the loop or returns
		d := e.disc
		if len(st.frames) < d.depth {
			continue
		}
		if len(st.frames) == d.depth && !d.loop.body[st.top().block] {
			continue
		}
		succ := e.stepDisc(st)
		work = append(work, succ...)
		if e.budget <= 0 {
			return
		}
	}
}

// stepDisc is step() with an early stop when the loop frame exits the loop.
func (e *Exec) stepDisc(st *State) []*State {
	d := e.disc
	for {
		e.budget--
		if e.budget <= 0 {
			return nil
		}
		fr := st.top()
		if len(st.frames) == d.depth && !d.loop.body[fr.block] {
			return nil
		}
		in := fr.block.Instrs[fr.pc]
		if _, isRet := in.(*ssa.Return); isRet && len(st.frames) == d.depth {
			return nil
		}
		succ, cont := e.execInstr(st, fr, in)
		if !cont {
			return succ
		}
	}
}

func (e *Exec) recordDiscovery(st *State) {
	d := e.disc
	if st.epoch != d.startEpoch {
		d.all = true
	}
	for k, v := range st.heap {
		if old, ok := d.start.m[k]; !ok || old.S != v.S {
			if !ok && v.S == h0Name(k, d.start.epoch) {
				continue
			}
			d.keys[k] = true
			start := h0Name(k, d.start.epoch)
			if ok {
				start = old.S
			}
			e.classifyWrites(st, d, k, v.S, start)
		}
	}
	for _, ev := range st.trace[d.startTrace:] {
		if ev.MayLoop != nil {
			for _, n := range ev.MayLoop {
				if ev.Deep {
					d.deep[n] = true
				} else {
					d.events[n] = true
				}
			}
		} else {
			d.events[ev.Name] = true
		}
	}
	if st.now.S != d.startNow.S {
		d.timeAdv = true
	}
}

func (e *Exec) loopEnv(st *State, fr *Frame, li *loopInfo, phis []*ssa.Phi) *SpecEnv {
	env := e.specEnvFor(st, fr)
	for _, ph := range phis {
		if ph.Comment == "rangeindex" {
			env.vars["idx"] = intV(Add(fr.env[ph].L[0], One))
		} else if ph.Comment != "" {
			// loop-carried source variable
			env.vars[ph.Comment] = fr.env[ph]
		}
	}
	// coll: operand of the len() whose result bounds the range index
	for _, in := range li.head.Instrs {
		if b, ok := in.(*ssa.BinOp); ok && b.Op == token.LSS {
			if c, ok := b.Y.(*ssa.Call); ok {
				if bi, ok := c.Call.Value.(*ssa.Builtin); ok && bi.Name() == "len" {
					env.vars["coll"] = e.val(fr, c.Call.Args[0])
				}
			}
		}
	}
	if _, ok := env.vars["idx"]; !ok {
		// the canonical counting loop `for i := 0; i < len(x); i++` is the same
		// loop as `for i := range x`: idx is i, coll is x
		for _, in := range li.head.Instrs {
			b, ok := in.(*ssa.BinOp)
			if !ok || b.Op != token.LSS {
				continue
			}
			ph, ok := b.X.(*ssa.Phi)
			if !ok || ph.Block() != li.head || len(ph.Edges) != 2 {
				continue
			}
			zero, step := false, false
			for _, ed := range ph.Edges {
				if c, ok := ed.(*ssa.Const); ok && c.Value != nil && c.Value.ExactString() == "0" {
					zero = true
				}
				if a, ok := ed.(*ssa.BinOp); ok && a.Op == token.ADD && a.X == ph {
					if c, ok := a.Y.(*ssa.Const); ok && c.Value != nil && c.Value.ExactString() == "1" {
						step = true
					}
				}
			}
			if zero && step {
				if v, ok := fr.env[ph]; ok && len(v.L) == 1 {
					env.vars["idx"] = intV(v.L[0])
				}
			}
		}
	}
	if r := e.iterOfLoop(fr, li); r != nil {
		if it := fr.iters[r]; it != nil {
			env.vars["idx"] = intV(it.pos)
			env.vars["coll"] = it.m
			env.iter = it
			env.vars["nkeys"] = intV(it.n)
		}
	}
	return env
}

func (e *Exec) loopClauses(fr *Frame, li *loopInfo) []Clause {
	c := e.eng.specs.Funcs[fnKey(fr.fn)]
	if c == nil {
		return nil
	}
	return c.Loops[li.ordinal]
}

func (e *Exec) checkInvariants(st *State, fr *Frame, li *loopInfo, phis []*ssa.Phi, kind string) {
	cls := e.loopClauses(fr, li)
	if len(cls) == 0 || e.disc != nil {
		return
	}
	env := e.loopEnv(st, fr, li, phis)
	for i, cl := range cls {
		t, err := env.evalBool(cl.Expr)
		if err != nil {
			e.specErr(err)
			continue
		}
		name := cl.Name
		if name == "" {
			name = fmt.Sprintf("%d", i+1)
		}
		// loop invariants are structural: every postcondition of the function
		// is proved from them, whichever property it is tagged with, so their
		// obligations count for every property (nil tags)
		e.oblige(st, kind, fmt.Sprintf("%s/loop%d:%s", fr.fn.Name(), li.ordinal, name), t, li.head.Instrs[0].Pos(), nil, cl.Text)
	}
}

func (e *Exec) assumeInvariants(st *State, fr *Frame, li *loopInfo, phis []*ssa.Phi) {
	cls := e.loopClauses(fr, li)
	if len(cls) == 0 {
		return
	}
	env := e.loopEnv(st, fr, li, phis)
	for _, cl := range cls {
		t, err := env.evalBool(cl.Expr)
		if err != nil {
			e.specErr(err)
			continue
		}
		st.assert(t)
	}
}

func (e *Exec) specErr(err error) {
	if e.disc != nil {
		return
	}
	e.specErrors = append(e.specErrors, err.Error())
}

// specEnvFor builds a spec environment for frame fr: parameters by name, named
// locals through debug references.
func (e *Exec) specEnvFor(st *State, fr *Frame) *SpecEnv {
	env := &SpecEnv{e: e, st: st, vars: map[string]Value{}, pkg: e.pkgOfFrame(fr), trace: st.trace, what: fnKey(fr.fn)}
	for name, v := range fr.names {
		if strings.HasPrefix(name, "&") {
			addr := e.val(fr, v)
			if addr.P != nil {
				env.vars[name[1:]] = e.loadPlace(st, addr.P, nil)
				env.vars[name[1:]+"$ptr"] = addr
			}
			continue
		}
		if val, ok := fr.env[v]; ok {
			env.vars[name] = val
		} else if _, isC := v.(*ssa.Const); isC {
			env.vars[name] = e.val(fr, v)
		}
	}
	for name, v := range e.uniqueNames(fr.fn) {
		if _, have := env.vars[name]; have {
			continue
		}
		if val, ok := fr.env[v]; ok {
			env.vars[name] = val
		}
	}
	for _, p := range fr.fn.Params {
		if _, cell := fr.names["&"+p.Name()]; cell {
			continue // address-taken parameter: its cell holds the current value
		}
		if sv, ok := fr.names[p.Name()]; ok {
			if _, isParam := sv.(*ssa.Parameter); !isParam {
				continue // reassigned parameter
			}
		}
		if val, ok := fr.env[p]; ok {
			env.vars[p.Name()] = val
		}
	}
	for i, fv := range fr.fn.FreeVars {
		// captured variables: by-reference cells
		if i < len(fr.bind) && fr.bind[i].P != nil {
			env.vars[fv.Name()] = e.loadPlace(st, fr.bind[i].P, nil)
			env.vars[fv.Name()+"$ptr"] = fr.bind[i]
		}
	}
	if e.top != nil && len(st.frames) >= 1 && st.frames[0] == fr {
		env.old = e.top.entry
		env.oldTop = e.top.entryTop
		env.oldNow = e.top.entryNow
	} else if e.top != nil {
		env.old = e.top.entry
		env.oldTop = e.top.entryTop
		env.oldNow = e.top.entryNow
	}
	return env
}

// ---------------------------------------------------------------------------
// Return / panic
// ---------------------------------------------------------------------------

func (e *Exec) doReturn(st *State, fr *Frame, res []Value, pos token.Pos) ([]*State, bool) {
	if len(st.frames) == 1 {
		if e.disc == nil {
			e.finishPath(st, fr, res, pos, false)
		}
		return nil, false
	}
	if e.disc != nil && len(st.frames) == e.disc.depth {
		return nil, false
	}
	st.frames = st.frames[:len(st.frames)-1]
	caller := st.top()
	switch fr.retMode {
	case 0:
		if fr.retTo != nil {
			var v Value
			switch len(res) {
			case 0:
				v = Value{T: fr.retTo.Type()}
			case 1:
				v = res[0]
				v.T = fr.retTo.Type()
			default:
				v = Value{T: fr.retTo.Type(), Tup: res}
			}
			caller.env[fr.retTo] = v
		}
		caller.pc++
	case 1:
		// deferred call finished: re-execute RunDefers (pc unchanged), or continue panicking
		if caller.panicking {
			return e.unwind(st, pos)
		}
		if caller.recovered {
			return e.resumeRecovered(st, caller, pos)
		}
	case 2:
		caller.pc++
	case 3:
		succ, cont := e.seqReturned(st, caller)
		if cont {
			return []*State{st}, false
		}
		return succ, false
	}
	return []*State{st}, false
}

func (e *Exec) doPanic(st *State, pos token.Pos) ([]*State, bool) {
	if e.disc != nil {
		return nil, false
	}
	st.top().panicking = true
	return e.unwind(st, pos)
}

// resumeRecovered continues a frame whose panic was recovered: remaining
// deferred calls run, then the function returns through its Recover block
// (named results keep their current values; otherwise zero values).
func (e *Exec) resumeRecovered(st *State, fr *Frame, pos token.Pos) ([]*State, bool) {
	if len(fr.defers) > 0 {
		d := fr.defers[len(fr.defers)-1]
		fr.defers = fr.defers[:len(fr.defers)-1]
		return e.execDeferred(st, fr, d)
	}
	fr.recovered = false
	if rb := fr.fn.Recover; rb != nil {
		fr.prev = fr.block
		fr.block = rb
		fr.pc = 0
		return []*State{st}, false
	}
	var res []Value
	rs := fr.fn.Signature.Results()
	for i := 0; i < rs.Len(); i++ {
		res = append(res, zeroValue(rs.At(i).Type()))
	}
	return e.doReturn(st, fr, res, pos)
}

// unwind runs deferred calls of panicking frames, innermost first.
func (e *Exec) unwind(st *State, pos token.Pos) ([]*State, bool) {
	for {
		fr := st.top()
		fr.panicking = true
		if len(fr.defers) > 0 {
			d := fr.defers[len(fr.defers)-1]
			fr.defers = fr.defers[:len(fr.defers)-1]
			return e.execDeferred(st, fr, d)
		}
		if len(st.frames) == 1 {
			e.finishPath(st, fr, nil, pos, true)
			return nil, false
		}
		st.frames = st.frames[:len(st.frames)-1]
	}
}

var bangNum = regexp.MustCompile(`![0-9]+`)

// classifyWrites walks the chain of stores from version cur back to version
// start and classifies the objects written.
func (e *Exec) classifyWrites(st *State, d *discoverCtx, key, cur, start string) {
	for steps := 0; steps < 10000; steps++ {
		if cur == start {
			return
		}
		body := cur
		if b, ok := e.defBody[cur]; ok {
			body = b
		}
		arr, idx, ok := parseStore(body)
		if !ok {
			d.unknown[key] = true
			return
		}
		if seq, fresh := st.freshSeq[idx]; fresh && seq > d.startSeq {
			// allocated inside the loop
		} else {
			// names defined inside the loop body are expanded to what they stand for
			for depth := 0; depth < 6; depth++ {
				b, ok := e.defBody[idx]
				if !ok {
					break
				}
				n := 0
				if m := bangNum.FindString(idx); m != "" {
					fmt.Sscanf(m[1:], "%d", &n)
				}
				if n <= d.startCounter {
					break
				}
				idx = b
			}
			inv := true
			for _, m := range bangNum.FindAllString(idx, -1) {
				n := 0
				fmt.Sscanf(m[1:], "%d", &n)
				if n > d.startCounter {
					inv = false
				}
			}
			if !inv {
				d.unknown[key] = true
				return
			}
			dup := false
			for _, o := range d.objs[key] {
				if o == idx {
					dup = true
				}
			}
			if !dup {
				d.objs[key] = append(d.objs[key], idx)
			}
		}
		cur = arr
	}
	d.unknown[key] = true
}

// parseStore splits "(store A I V)" into A and I.
func parseStore(s string) (arr, idx string, ok bool) {
	if !strings.HasPrefix(s, "(store ") {
		return "", "", false
	}
	i := 7
	j := sortEnd(s, i)
	arr = s[i:j]
	k := j + 1
	l := sortEnd(s, k)
	idx = s[k:l]
	return arr, idx, true
}

// uniqueNames: source-level variables of fn that denote exactly one SSA value
// throughout the function (single assignment), by name.
func (e *Exec) uniqueNames(fn *ssa.Function) map[string]ssa.Value {
	if m, ok := e.nameCache[fn]; ok {
		return m
	}
	seen := map[string]map[ssa.Value]bool{}
	for _, b := range fn.Blocks {
		for _, in := range b.Instrs {
			d, ok := in.(*ssa.DebugRef)
			if !ok || d.IsAddr || d.Object() == nil {
				continue
			}
			if v, isVar := d.Object().(*types.Var); !isVar || v.IsField() {
				continue
			}
			if c, isC := d.X.(*ssa.Const); isC && c.Value == nil {
				continue
			}
			n := d.Object().Name()
			if seen[n] == nil {
				seen[n] = map[ssa.Value]bool{}
			}
			seen[n][d.X] = true
		}
	}
	m := map[string]ssa.Value{}
	for n, vs := range seen {
		if len(vs) == 1 {
			for v := range vs {
				m[n] = v
			}
		}
	}
	e.nameCache[fn] = m
	return m
}
