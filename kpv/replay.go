package main

import (
	"fmt"
)

// tryReplay attempts to turn the solver's model into a Go test against the
// real code. Returns true when the failure was reproduced.
func (eng *Engine) tryReplay(prop, group string, obls []*Obligation, path string) bool {
	return false
}

func cmdReplay(args []string) int {
	fmt.Println("replay: not implemented yet")
	return 0
}
