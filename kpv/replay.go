package main

import (
	"context"
	"encoding/json"
	"fmt"
	"os"
	"os/exec"
	"path/filepath"
	"sort"
	"strings"
)

// tryReplay attempts to turn the solver's model into a Go test against the
// real code. Not built for obligations (see DESIGN.md §11.6): the heap encoding's
// models are not inputs one can hand to a Go function. Bounded checks
// (bounded.go) do carry a failing input; they do not go through here.
func (eng *Engine) tryReplay(prop, group string, obls []*Obligation, path string) bool {
	return false
}

// cmdReplay: `kpv replay <file>`.
//
// For the replay file of a failed obligation it prints what failed (function,
// clause, the branch conditions of each failing path, the solvers' answers at the
// time) and sends the stored verification condition to the solvers again; exit 1
// if it still has no proof, 0 if it is discharged now.
//
// For the replay file of a failed bounded check it reruns the stored command
// against the real code (the failing input is part of the enumeration); exit 1
// if the failure reproduces.
func cmdReplay(args []string) int {
	if len(args) != 1 {
		fmt.Fprintln(os.Stderr, "usage: kpv replay <replay file>")
		return 2
	}
	data, err := os.ReadFile(args[0])
	if err != nil {
		fmt.Fprintln(os.Stderr, "replay:", err)
		return 2
	}
	var generic map[string]any
	if err := json.Unmarshal(data, &generic); err != nil {
		fmt.Fprintln(os.Stderr, "replay: not a replay file:", err)
		return 2
	}
	if rerun, ok := generic["rerun"].(string); ok && rerun != "" {
		fmt.Printf("property:   %v\nobligation: %v\n", generic["property"], generic["obligation"])
		in, _ := json.Marshal(generic["failing_input"])
		fmt.Printf("failing input: %s\nrerunning against the real code:\n  %s\n", in, rerun)
		if repo, ok := generic["repo"].(string); ok {
			if _, err := os.Stat(repo); err != nil {
				fmt.Println("replay: the tree this was run against (" + repo + ") no longer exists; apply the change again and rerun the check")
				return 2
			}
		}
		cmd := exec.Command("bash", "-c", rerun)
		out, err := cmd.CombinedOutput()
		fmt.Print(string(out))
		if err != nil {
			fmt.Println("replay: the failure reproduces on this tree")
			return 1
		}
		fmt.Println("replay: the bounded check passes on this tree")
		return 0
	}
	var rf replayFile
	if err := json.Unmarshal(data, &rf); err != nil {
		fmt.Fprintln(os.Stderr, "replay:", err)
		return 2
	}
	fmt.Printf("property:   %s\nobligation: %s\nfunction:   %s  [%s]\nkind:       %s\nclause:     %s\n", rf.Property, rf.Obligation, rf.Function, rf.Position, rf.Kind, rf.Clause)
	if rf.Note != "" {
		fmt.Println("note:       " + rf.Note)
	}
	if len(rf.Paths) == 0 {
		fmt.Println("replay: no verification condition is stored for this violation (the contract no longer fits the code, or its function is gone)")
		return 1
	}
	td, _ := os.MkdirTemp("", "kpv-replay-")
	defer os.RemoveAll(td)
	still := 0
	for i, p := range rf.Paths {
		fmt.Printf("\npath %d: %s\n", i+1, p.Name)
		for _, c := range p.Path {
			if strings.TrimSpace(strings.TrimPrefix(c, "-:")) != "" {
				fmt.Println("  branch: " + c)
			}
		}
		var ks []string
		for k := range p.Answers {
			ks = append(ks, k)
		}
		sort.Strings(ks)
		var as []string
		for _, k := range ks {
			as = append(as, k+"="+p.Answers[k])
		}
		fmt.Println("  solver answers when the check ran: " + strings.Join(as, " "))
		if p.Model != "" {
			fmt.Println("  model of the negated obligation (heap arrays are per field; object ids are integers):")
			for _, l := range strings.Split(trunc(p.Model, 3000), "\n") {
				fmt.Println("    " + l)
			}
		}
		f := filepath.Join(td, fmt.Sprintf("p%d.smt2", i))
		os.WriteFile(f, []byte(p.SMT), 0o644)
		proved := false
		var now []string
		for _, sp := range solvers {
			st, _ := runSolver(context.Background(), sp, f, 10000)
			now = append(now, sp.name+"="+st)
			if st == "unsat" {
				proved = true
			}
		}
		fmt.Println("  solver answers now (stored verification condition, 10 s each): " + strings.Join(now, " "))
		if !proved {
			still++
		}
	}
	if still > 0 {
		fmt.Printf("\nreplay: %d of %d stored verification conditions still have no proof (unsat = proved; sat/unknown/timeout = not proved)\n", still, len(rf.Paths))
		return 1
	}
	fmt.Println("\nreplay: every stored verification condition is discharged now")
	return 0
}
