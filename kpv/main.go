package main

import (
	"context"
	"encoding/json"
	"flag"
	"fmt"
	"go/types"
	"os"
	"path/filepath"
	"regexp"
	"sort"
	"strconv"
	"strings"
	"time"

	"golang.org/x/tools/go/ssa"
)

const verifDir = "/verif"
const repoDir = "/repo"

func main() {
	if len(os.Args) < 2 {
		fmt.Fprintln(os.Stderr, "usage: kpv check|verify|dump|list|replay ...")
		os.Exit(2)
	}
	switch os.Args[1] {
	case "check":
		os.Exit(cmdCheck(os.Args[2:]))
	case "verify":
		os.Exit(cmdVerify(os.Args[2:]))
	case "dump":
		os.Exit(cmdDump(os.Args[2:]))
	case "list":
		os.Exit(cmdList(os.Args[2:]))
	case "replay":
		os.Exit(cmdReplay(os.Args[2:]))
	case "selftest":
		os.Exit(cmdSelftest(os.Args[2:]))
	case "core":
		os.Exit(cmdCore(os.Args[2:]))
	}
	fmt.Fprintln(os.Stderr, "unknown command", os.Args[1])
	os.Exit(2)
}

func mustEngine(repo string) *Engine {
	eng, err := loadEngine(repo, verifDir)
	if err != nil {
		fmt.Fprintln(os.Stderr, "kpv: cannot load:", err)
		os.Exit(3)
	}
	td, err := os.MkdirTemp("", "kpv-smt-")
	if err != nil {
		fmt.Fprintln(os.Stderr, err)
		os.Exit(3)
	}
	eng.tmpdir = td
	return eng
}

func cmdDump(args []string) int {
	repo := repoDir
	if len(args) >= 2 && args[0] == "--repo" {
		repo, args = args[1], args[2:]
	}
	eng := mustEngine(repo)
	defer os.RemoveAll(eng.tmpdir)
	for _, a := range args {
		fn := eng.funcs[a]
		if fn == nil {
			fmt.Println("no such function:", a)
			continue
		}
		fn.WriteTo(os.Stdout)
	}
	return 0
}

func cmdList(args []string) int {
	eng := mustEngine(repoDir)
	defer os.RemoveAll(eng.tmpdir)
	var keys []string
	for k := range eng.funcs {
		keys = append(keys, k)
	}
	sort.Strings(keys)
	for _, k := range keys {
		mark := " "
		if eng.specs.Funcs[k] != nil {
			mark = "C"
		}
		fmt.Println(mark, k)
	}
	return 0
}

// cmdVerify: debugging aid — verify named functions and print every obligation.
func cmdVerify(args []string) int {
	fs := flag.NewFlagSet("verify", flag.ExitOnError)
	timeout := fs.Int("timeout", 10000, "per-solver timeout (ms)")
	locks := fs.Bool("locks", false, "lock discipline obligations")
	showSMT := fs.Bool("smt", false, "print SMT of failed obligations")
	showOnly := fs.String("show", "", "print goal and SMT of obligations whose name contains this")
	repo := fs.String("repo", repoDir, "repository root")
	fs.Parse(args)
	eng := mustEngine(*repo)
	defer os.RemoveAll(eng.tmpdir)
	rc := 0
	for _, a := range fs.Args() {
		var res *FuncResult
		if a == "lemmas" {
			res, _ = eng.lemmaObligations("")
		} else {
			fn := eng.funcs[a]
			if fn == nil {
				fmt.Println("no such function:", a)
				rc = 1
				continue
			}
			res = eng.verifyFunction(fn, eng.specs.Funcs[a], *locks)
		}
		eng.solveAll(res.Obls, *timeout, false)
		for _, n := range postVacuity(res.Obls) {
			fmt.Println("  note: path unreachable under the contracts in force:", n)
		}
		fmt.Printf("== %s: %d paths, %d obligations (+%d trivial)\n", res.Key, res.Paths, len(res.Obls), res.Trivial)
		if res.Panic != "" {
			fmt.Println("  ENGINE PANIC:", res.Panic)
			rc = 1
		}
		seenErr := map[string]bool{}
		for _, s := range res.SpecErrors {
			if !seenErr[s] {
				fmt.Println("  SPEC ERROR:", s)
			}
			seenErr[s] = true
			rc = 1
		}
		for _, s := range res.Abstractions {
			fmt.Println("  abstraction:", s)
		}
		for _, o := range res.Obls {
			if o.Status == "other-property" {
				continue
			}
			ok := o.Status == "unsat"
			if o.ExpectSat {
				ok = o.Status != "unsat"
			}
			mark := "ok  "
			if !ok {
				mark = "FAIL"
				rc = 1
			}
			fmt.Printf("  %s %-8s %5dms %-7s %s  [%s]\n", mark, o.Status, o.TimeMs, o.Solver, o.Name, o.Pos)
			if *showOnly != "" && strings.Contains(o.Name, *showOnly) {
				fmt.Printf("       goal: %s\n", o.Goal.S)
				for _, p := range o.Path {
					fmt.Println("       path:", p)
				}
				fmt.Println(smtText(o, false))
			}
			if !ok {
				fmt.Printf("       goal: %s\n       text: %s\n", trunc(o.Goal.S, 300), o.Text)
				for _, p := range o.Path {
					fmt.Println("       path:", p)
				}
				fmt.Println("       answers:", o.Answers)
				if *showSMT {
					if ft, dropped := smtTextFiltered(o); dropped {
						fmt.Println(";; ---- stage A (filtered) ----")
						fmt.Println(ft)
					}
					fmt.Println(";; ---- full ----")
					fmt.Println(smtText(o, false))
				}
			}
		}
	}
	return rc
}

func trunc(s string, n int) string {
	if len(s) > n {
		return s[:n] + "..."
	}
	return s
}

// ---------------------------------------------------------------------------
// check: one property
// ---------------------------------------------------------------------------

type knownFinding struct {
	Kind       string // known | fixed
	Property   string
	Obligation string
	Text       string
}

func loadKnownFindings() []knownFinding {
	data, err := os.ReadFile(filepath.Join(verifDir, "known_findings.txt"))
	if err != nil {
		return nil
	}
	var out []knownFinding
	re := regexp.MustCompile(`^(known|fixed):\s+property=(\S+)\s+(?:obligation=(\S+)\s+)?(.*)$`)
	for _, l := range strings.Split(string(data), "\n") {
		l = strings.TrimSpace(l)
		if m := re.FindStringSubmatch(l); m != nil {
			out = append(out, knownFinding{m[1], m[2], m[3], m[4]})
		}
	}
	return out
}

type ledger struct {
	Property string   `json:"property"`
	Groups   []string `json:"discharged_groups"`
	// lockset / lock-order obligations that do NOT discharge on the unchanged
	// tree (engine imprecision, or helpers analysed without their callers'
	// locks). Every other lockset / lock obligation is claimed, including ones
	// that only come into existence after a change.
	LockUnproved []string `json:"lock_groups_unproved_on_the_unchanged_tree"`
	// functions all of whose safety obligations (nil, index, overflow, close,
	// explicit panic) discharged on the unchanged tree: there a safety
	// obligation that only comes into existence after a change is claimed too.
	SafetyClean []string `json:"functions_with_every_safety_obligation_discharged_on_the_unchanged_tree"`
}

func loadLedger(prop string) map[string]bool {
	data, err := os.ReadFile(filepath.Join(verifDir, "ledger", prop+".json"))
	if err != nil {
		return nil
	}
	var l ledger
	if json.Unmarshal(data, &l) != nil {
		return nil
	}
	m := map[string]bool{}
	for _, g := range l.Groups {
		m[g] = true
	}
	for _, f := range l.SafetyClean {
		m["\x00clean:"+f] = true
	}
	if l.LockUnproved != nil {
		m["\x00lock-exclusion-list"] = true
		for _, g := range l.LockUnproved {
			m["\x00unproved:"+g] = true
		}
	}
	return m
}

// claimed: is a failure of this obligation a violation of prop?
func claimed(o *Obligation, led map[string]bool) bool {
	if alwaysClaimed(o.Kind) {
		return true
	}
	if (o.Kind == "lockset" || o.Kind == "lock") && led["\x00lock-exclusion-list"] {
		return !led["\x00unproved:"+o.Group]
	}
	if o.Kind == "safety" && led["\x00clean:"+o.Func] {
		return true
	}
	return led[o.Group]
}

func hasTag(tags []string, t string) bool {
	for _, x := range tags {
		if x == t {
			return true
		}
	}
	return false
}

func alwaysClaimed(kind string) bool {
	switch kind {
	case "safety", "lockset", "lock":
		return false
	}
	return true
}

func cmdCheck(args []string) int {
	fs := flag.NewFlagSet("check", flag.ExitOnError)
	prop := fs.String("property", "", "property id")
	tier := fs.String("tier", "quick", "quick|thorough")
	update := fs.Bool("update-ledger", false, "rewrite the ledger from this run (unchanged tree only)")
	repo := fs.String("repo", repoDir, "repository root")
	verbose := fs.Bool("v", false, "verbose")
	noEvidence := fs.Bool("no-evidence", false, "do not write the evidence file (selftest)")
	fs.Parse(args)
	if *prop == "" {
		fmt.Fprintln(os.Stderr, "check: --property required")
		return 2
	}
	if t := os.Getenv("VERIF_TIER"); t != "" && !flagSet(fs, "tier") {
		*tier = t
	}
	seed := 0
	if s := os.Getenv("VERIF_SEED"); s != "" {
		seed, _ = strconv.Atoi(s)
	}
	start := time.Now()
	eng := mustEngine(*repo)
	defer os.RemoveAll(eng.tmpdir)
	eng.tier = *tier
	timeout := 10000
	if *tier == "thorough" {
		timeout = 60000
	}
	eng.updatingLedger = *update
	rep := eng.checkProperty(*prop, timeout, *tier == "thorough", *verbose)
	rep.WallS = time.Since(start).Seconds()
	rep.Seed = seed
	rep.Tier = *tier
	if *update {
		writeLedger(*prop, rep)
		fmt.Printf("ledger for %s rewritten: %d groups\n", *prop, len(rep.dischargedGroups))
	}
	code := rep.finish(*prop, !*noEvidence)
	return code
}

func flagSet(fs *flag.FlagSet, name string) bool {
	found := false
	fs.Visit(func(f *flag.Flag) {
		if f.Name == name {
			found = true
		}
	})
	return found
}

// postVacuity: a path whose assumptions are contradictory is unreachable under
// the contracts in force; that is reported, not failed — unless every path of a
// function is unreachable (then its proof is vacuous).
func postVacuity(obls []*Obligation) []string {
	byFunc := map[string][]*Obligation{}
	for _, o := range obls {
		if o.Kind == "vacuity" && strings.Contains(o.Name, "path-feasible") {
			byFunc[o.Func] = append(byFunc[o.Func], o)
		}
	}
	var info []string
	for _, os_ := range byFunc {
		feasible := 0
		for _, o := range os_ {
			if o.Status != "unsat" {
				feasible++
			}
		}
		if feasible == 0 {
			continue // all paths infeasible: leave as failures
		}
		for _, o := range os_ {
			if o.Status == "unsat" && !strings.HasPrefix(o.Model, "assumption: ") {
				// dead code under the contracts in force (the path dies at a branch)
				o.Status = "unreachable"
				info = append(info, o.Name+" ["+o.Pos+"]")
			} else if o.Status == "unsat" {
				// the assumed facts contradict each other: everything proved on
				// this path was proved from `false`
				o.Text = "the facts assumed along this path contradict each other at: " + trunc(strings.TrimPrefix(o.Model, "assumption: "), 300)
			}
		}
	}
	sort.Strings(info)
	return info
}

type checkReport struct {
	Infeasible       []string
	Prop             string
	Tier             string
	Seed             int
	WallS            float64
	Funcs            []*FuncResult
	All              []*Obligation
	Failed           []*Obligation // claimed and failed, not known
	Known            []*Obligation
	KnownText        map[string]string
	NotClaimed       []*Obligation
	OtherProp        []*Obligation
	EngineErrors     []string
	dischargedGroups map[string]bool
	failedGroups     map[string]bool
	byBackend        map[string]int
	solverMs         int64
	eng              *Engine
	missing          []string
	Bounded          []*boundedResult
}

// propertyFunctions: functions whose contracts carry a clause tagged with the
// property, plus the cone of (non-assumed) contracts those proofs rely on.
func (eng *Engine) checkProperty(prop string, timeoutMs int, all_ bool, verbose bool) *checkReport {
	all := all_
	rep := &checkReport{Prop: prop, eng: eng, KnownText: map[string]string{}, dischargedGroups: map[string]bool{}, failedGroups: map[string]bool{}, byBackend: map[string]int{}}
	todo := []string{}
	seen := map[string]bool{}
	var keys []string
	for k, c := range eng.specs.Funcs {
		if !c.Assumed && c.HasTag(prop) {
			keys = append(keys, k)
		}
	}
	sort.Strings(keys)
	todo = append(todo, keys...)
	checkLocks := prop == "C18"
	sweepOnly := map[string]bool{}
	if checkLocks {
		// C18 is a sweep: every function of both packages is executed for its
		// safety, lockset and lock-order obligations. Functions that carry no
		// C18 clause contribute only those kinds.
		var all []string
		for k, fn := range eng.funcs {
			if len(fn.Blocks) == 0 || fn.Synthetic != "" {
				continue
			}
			if c := eng.specs.Funcs[k]; c != nil && (c.Assumed || c.HasTag(prop)) {
				continue
			}
			if strings.Contains(fn.Name(), "$") {
				continue // closures are executed inside the functions that create them
			}
			if strings.HasSuffix(eng.fset.Position(fn.Pos()).Filename, "/testing.go") {
				continue // test helpers compiled into the package
			}
			if !all_ && !eng.touchesSharedState(fn) {
				continue // quick tier: only functions that lock, close channels or touch guarded fields
			}
			all = append(all, k)
			sweepOnly[k] = true
		}
		sort.Strings(all)
		todo = append(todo, all...)
	}
	var specFail []*Obligation
	tExec := time.Now()
	defer func() {
		_ = tExec
	}()
	for len(todo) > 0 {
		k := todo[0]
		todo = todo[1:]
		if seen[k] {
			continue
		}
		seen[k] = true
		c := eng.specs.Funcs[k]
		fn := eng.funcs[k]
		if fn == nil {
			if c != nil && c.HasTag(prop) {
				rep.missing = append(rep.missing, k)
			}
			continue
		}
		if c != nil && c.Attrs["trusted_summary"] == "true" {
			// a summary that is assumed, not verified (listed in evidence) -
			// except for its clauses named checked_*, which are about the shape
			// of its trace (what it calls last, in which order) and are proved
			fr := &FuncResult{Key: k, Assumed: []string{"trusted summary (not verified, except clauses named checked_*): " + k}}
			hasChecked := false
			for _, cl := range c.Ensures {
				if strings.HasPrefix(cl.Name, "checked_") {
					hasChecked = true
				}
			}
			if hasChecked {
				res := eng.verifyFunction(fn, c, false)
				for _, o := range res.Obls {
					if strings.Contains(o.Group, "/ensures:checked_") {
						fr.Obls = append(fr.Obls, o)
					}
				}
				fr.Paths = res.Paths
				rep.All = append(rep.All, fr.Obls...)
			}
			rep.Funcs = append(rep.Funcs, fr)
			continue
		}
		res := eng.verifyFunction(fn, c, checkLocks)
		rep.Funcs = append(rep.Funcs, res)
		if res.Panic != "" {
			rep.EngineErrors = append(rep.EngineErrors, k+": "+res.Panic)
		}
		for i, s := range res.SpecErrors {
			// The contract cannot be evaluated against this version of the
			// function (a field, parameter or callee it names is gone): the
			// clauses it carried cannot be established. Reported as a failed
			// obligation, not as an engine error.
			if i > 0 {
				break
			}
			specFail = append(specFail, &Obligation{Name: k + "/contract:does-not-fit-the-code", Group: k + "/contract:does-not-fit-the-code", Kind: "contract", Func: k,
				Pos: "-", Text: "the contract no longer fits the code: " + trunc(s, 300), Status: "spec-error", Solver: "-"})
		}
		for _, u := range res.Contracts {
			if strings.HasPrefix(u, "lemma ") || !all {
				// quick tier: the functions that carry a clause of this
				// property; thorough: plus every contract they rely on,
				// transitively
				continue
			}
			if uc := eng.specs.Funcs[u]; uc != nil && !uc.Assumed && !seen[u] {
				todo = append(todo, u)
			}
		}
		if sweepOnly[k] {
			var keep []*Obligation
			for _, o := range res.Obls {
				switch o.Kind {
				case "safety", "lockset", "lock":
					keep = append(keep, o)
				}
			}
			res.Obls = keep
		}
		rep.All = append(rep.All, res.Obls...)
	}
	if verbose {
		fmt.Fprintf(os.Stderr, "symbolic execution: %.1fs\n", time.Since(tExec).Seconds())
	}
	lem, _ := eng.lemmaObligations(prop)
	if len(lem.Obls) > 0 || len(lem.SpecErrors) > 0 {
		rep.Funcs = append(rep.Funcs, lem)
		rep.All = append(rep.All, lem.Obls...)
		for _, s := range lem.SpecErrors {
			rep.EngineErrors = append(rep.EngineErrors, "lemma: "+s)
		}
	}
	eng.noRetry = map[string]bool{}
	for _, kf := range loadKnownFindings() {
		if kf.Kind == "known" && kf.Property == prop {
			eng.noRetry[kf.Obligation] = true
		}
	}
	tSolve := time.Now()
	toSolve := rep.All
	{
		// clauses that belong to other properties only are not this check's business
		var keep []*Obligation
		for _, o := range toSolve {
			if o.Status == "" && len(o.Tags) > 0 && !hasTag(o.Tags, prop) {
				o.Status, o.Solver = "other-property", "-"
				continue
			}
			keep = append(keep, o)
		}
		toSolve = keep
	}
	if !eng.updatingLedger {
		// obligations whose failure could not be reported (safety obligations
		// outside the ledger) are not sent to the solvers
		ledNow := loadLedger(prop)
		eng.provedBefore, eng.quietLeft = ledNow, 4
		all_ := toSolve
		toSolve = nil
		for _, o := range all_ {
			if o.Status == "" && !o.ExpectSat && !claimed(o, ledNow) {
				o.Status, o.Solver = "not-claimed", "-"
				continue
			}
			toSolve = append(toSolve, o)
		}
	}
	eng.solveAll(toSolve, timeoutMs, all)
	for _, bc := range boundedRegistry {
		run := seen[bc.Key]
		for _, k := range bc.Also {
			run = run || seen[k]
		}
		if run {
			rep.Bounded = append(rep.Bounded, eng.runBounded(bc))
		}
	}
	if verbose {
		fmt.Fprintf(os.Stderr, "solve phase: %.1fs for %d obligations\n", time.Since(tSolve).Seconds(), len(rep.All))
		type st struct {
			n  int
			ms int64
		}
		slow := append([]*Obligation(nil), rep.All...)
		sort.Slice(slow, func(i, j int) bool { return slow[i].TimeMs > slow[j].TimeMs })
		for i := 0; i < 15 && i < len(slow); i++ {
			fmt.Fprintf(os.Stderr, "  %6dms %-8s %-7s %s %v\n", slow[i].TimeMs, slow[i].Status, slow[i].Solver, slow[i].Name, slow[i].Answers)
		}
	}
	rep.Infeasible = postVacuity(rep.All)
	rep.All = append(rep.All, specFail...)
	if fl := eng.flagObligations(prop); len(fl) > 0 {
		rep.Funcs = append(rep.Funcs, &FuncResult{Key: "flags", Obls: fl})
		rep.All = append(rep.All, fl...)
	}
	if sh := eng.shapeObligations(prop); len(sh) > 0 {
		rep.Funcs = append(rep.Funcs, &FuncResult{Key: "shape", Obls: sh})
		rep.All = append(rep.All, sh...)
	}
	known := loadKnownFindings()
	led := loadLedger(prop)
	for _, o := range rep.All {
		if o.Status == "other-property" {
			continue
		}
		ok := o.Status == "unsat"
		if o.ExpectSat {
			ok = o.Status != "unsat"
		}
		rep.solverMs += o.TimeMs
		if ok {
			rep.byBackend[o.Solver]++
			continue
		}
		rep.failedGroups[o.Group] = true
	}
	for _, o := range rep.All {
		if !rep.failedGroups[o.Group] {
			rep.dischargedGroups[o.Group] = true
		}
	}
	for _, o := range rep.All {
		if o.Status == "other-property" {
			continue
		}
		ok := o.Status == "unsat"
		if o.ExpectSat {
			ok = o.Status != "unsat"
		}
		if ok {
			continue
		}
		if len(o.Tags) > 0 && !hasTag(o.Tags, prop) {
			rep.OtherProp = append(rep.OtherProp, o)
			continue
		}
		isKnown := false
		for _, kf := range known {
			if kf.Kind == "known" && kf.Property == prop && kf.Obligation == o.Group {
				isKnown = true
				rep.KnownText[o.Group] = kf.Text
			}
		}
		if isKnown {
			rep.Known = append(rep.Known, o)
			continue
		}
		if !claimed(o, led) {
			rep.NotClaimed = append(rep.NotClaimed, o)
			continue
		}
		rep.Failed = append(rep.Failed, o)
	}
	return rep
}

// touchesSharedState: the function itself takes or releases a lock, closes a
// channel, or addresses a field declared guarded_by.
func (eng *Engine) touchesSharedState(fn *ssa.Function) bool {
	guarded := map[string]bool{}
	for _, g := range eng.specs.Guards {
		for _, f := range g.Fields {
			guarded[strings.TrimSuffix(f, "[]")] = true
		}
	}
	for _, af := range fn.AnonFuncs {
		if eng.touchesSharedState(af) {
			return true
		}
	}
	for _, b := range fn.Blocks {
		for _, in := range b.Instrs {
			switch x := in.(type) {
			case *ssa.FieldAddr:
				t := x.X.Type().Underlying().(*types.Pointer).Elem()
				if st, ok := t.Underlying().(*types.Struct); ok && guarded[typeKey(t)+"."+st.Field(x.Field).Name()] {
					return true
				}
			case *ssa.Store:
				if globalOf(x.Addr) != nil && !strings.HasPrefix(fn.Name(), "init") {
					return true
				}
			case ssa.CallInstruction:
				c := x.Common()
				if bi, ok := c.Value.(*ssa.Builtin); ok && bi.Name() == "close" {
					return true
				}
				if sc := c.StaticCallee(); sc != nil && strings.HasPrefix(sc.String(), "(*sync.") {
					return true
				}
			}
		}
	}
	return false
}

func writeLedger(prop string, rep *checkReport) {
	var gs []string
	for g := range rep.dischargedGroups {
		gs = append(gs, g)
	}
	sort.Strings(gs)
	os.MkdirAll(filepath.Join(verifDir, "ledger"), 0o755)
	lu := []string{}
	seenLU := map[string]bool{}
	for _, o := range rep.All {
		if (o.Kind == "lockset" || o.Kind == "lock") && rep.failedGroups[o.Group] && !seenLU[o.Group] {
			isKnown := false
			for _, k := range rep.Known {
				if k.Group == o.Group {
					isKnown = true
				}
			}
			if !isKnown {
				seenLU[o.Group] = true
				lu = append(lu, o.Group)
			}
		}
	}
	sort.Strings(lu)
	dirty := map[string]bool{}
	for _, o := range rep.All {
		if o.Kind == "safety" && rep.failedGroups[o.Group] {
			dirty[o.Func] = true
		}
	}
	clean := []string{}
	for _, f := range rep.Funcs {
		if f.Key != "" && !dirty[f.Key] && len(f.Assumed) == 0 && f.Paths > 0 {
			clean = append(clean, f.Key)
		}
	}
	sort.Strings(clean)
	data, _ := json.MarshalIndent(ledger{Property: prop, Groups: gs, LockUnproved: lu, SafetyClean: clean}, "", " ")
	os.WriteFile(filepath.Join(verifDir, "ledger", prop+".json"), append(data, '\n'), 0o644)
}

func sanitize(s string) string {
	var b strings.Builder
	for _, r := range s {
		switch {
		case r >= 'a' && r <= 'z', r >= 'A' && r <= 'Z', r >= '0' && r <= '9', r == '.', r == '-', r == '_':
			b.WriteRune(r)
		default:
			b.WriteByte('_')
		}
	}
	out := b.String()
	if len(out) > 120 {
		out = out[:120]
	}
	return out
}

func (rep *checkReport) finish(prop string, writeEvidence bool) int {
	eng := rep.eng
	code := 0
	// known findings
	printed := map[string]bool{}
	for _, o := range rep.Known {
		if !printed[o.Group] {
			printed[o.Group] = true
			fmt.Printf("KNOWN-FINDING: property=%s %s %s\n", prop, o.Group, rep.KnownText[o.Group])
		}
	}
	for _, m := range rep.missing {
		rep.EngineErrors = append(rep.EngineErrors, "contract target missing: "+m)
	}
	// violations
	vio := map[string][]*Obligation{}
	var order []string
	for _, o := range rep.Failed {
		if _, ok := vio[o.Group]; !ok {
			order = append(order, o.Group)
		}
		vio[o.Group] = append(vio[o.Group], o)
	}
	for _, g := range order {
		os_ := vio[g]
		path := eng.writeReplay(prop, g, os_)
		suffix := ""
		rr := eng.tryReplay(prop, g, os_, path)
		if !rr {
			suffix = " no-failing-input-found"
		}
		fmt.Printf("VIOLATION property=%s replay=%s%s\n", prop, path, suffix)
		fmt.Printf("  failed obligation: %s [%s] %s\n", g, os_[0].Pos, os_[0].Text)
		code = 1
	}
	boundedFailed := 0
	for _, r := range rep.Bounded {
		if r.Failed {
			path := eng.writeBoundedReplay(prop, r)
			fmt.Printf("VIOLATION property=%s replay=%s\n", prop, path)
			fmt.Printf("  failed bounded check of the real function %s: input %s\n", r.Check.Key, trunc(r.Input, 600))
			code = 1
			boundedFailed++
		}
	}
	for _, m := range rep.missing {
		path := eng.writeReplayText(prop, "missing-"+m, "the function "+m+" that carries clauses of "+prop+" no longer exists; the property cannot be established")
		fmt.Printf("VIOLATION property=%s replay=%s no-failing-input-found\n", prop, path)
		code = 1
	}
	if len(rep.EngineErrors) > 0 && code == 0 {
		for _, s := range rep.EngineErrors {
			fmt.Fprintln(os.Stderr, "kpv: engine/spec error:", s)
		}
		code = 3
	}
	if len(rep.All) == 0 && code == 0 {
		fmt.Fprintln(os.Stderr, "kpv: no obligations generated for", prop)
		code = 3
	}
	if writeEvidence {
		rep.writeEvidence(prop, len(order)+boundedFailed)
	}
	n, scope := 0, 0
	for _, o := range rep.All {
		if o.Status == "other-property" {
			continue
		}
		scope++
		if (!o.ExpectSat && o.Status == "unsat") || (o.ExpectSat && o.Status != "unsat") {
			n++
		}
	}
	bnote := ""
	for _, r := range rep.Bounded {
		switch {
		case r.Failed:
			bnote += fmt.Sprintf("; bounded check of %s FAILED", r.Check.Key)
		case r.Ran:
			bnote += fmt.Sprintf("; bounded check of %s passed on %d cases", r.Check.Key, r.Cases)
		default:
			bnote += fmt.Sprintf("; bounded check of %s did not run", r.Check.Key)
		}
	}
	fmt.Printf("%s: %d obligations, %d discharged, %d violated groups, %d known findings, %d not claimed, %.1fs%s\n",
		prop, scope, n, len(order)+boundedFailed, len(printed), len(rep.NotClaimed), rep.WallS, bnote)
	return code
}

type evidence struct {
	PropertyID  string         `json:"property_id"`
	Tier        string         `json:"tier"`
	Seed        int            `json:"seed"`
	Level       string         `json:"level"`
	Coverage    map[string]any `json:"coverage"`
	Assumptions []string       `json:"assumptions"`
	WallS       float64        `json:"wall_s"`
	Violations  int            `json:"violations"`
}

func (rep *checkReport) writeEvidence(prop string, violations int) {
	discharged := 0
	claimed := 0
	notClaimed := map[*Obligation]bool{}
	for _, o := range rep.NotClaimed {
		notClaimed[o] = true
	}
	knownSet := map[*Obligation]bool{}
	for _, o := range rep.Known {
		knownSet[o] = true
	}
	other := map[*Obligation]bool{}
	for _, o := range rep.OtherProp {
		other[o] = true
	}
	skippedOther, skippedUnclaimed := 0, 0
	for _, o := range rep.All {
		if o.Status == "other-property" {
			skippedOther++
			continue
		}
		if o.Status == "not-claimed" {
			skippedUnclaimed++
			continue
		}
		if notClaimed[o] || knownSet[o] || other[o] {
			continue
		}
		claimed++
		if (!o.ExpectSat && o.Status == "unsat") || (o.ExpectSat && o.Status != "unsat") {
			discharged++
		}
	}
	var fns, inl, assumed, abstr, modelled []string
	set := func(dst *[]string, src []string, seen map[string]bool) {
		for _, s := range src {
			if !seen[s] {
				seen[s] = true
				*dst = append(*dst, s)
			}
		}
	}
	s1, s2, s3, s4, s5 := map[string]bool{}, map[string]bool{}, map[string]bool{}, map[string]bool{}, map[string]bool{}
	paths := 0
	trivial := 0
	for _, f := range rep.Funcs {
		fns = append(fns, fmt.Sprintf("%s (%d paths, %d obligations)", f.Key, f.Paths, len(f.Obls)))
		set(&inl, f.Inlined, s1)
		set(&assumed, f.Assumed, s2)
		set(&abstr, f.Abstractions, s3)
		set(&modelled, f.Modelled, s4)
		paths += f.Paths
		trivial += f.Trivial
	}
	_ = s5
	sort.Strings(inl)
	sort.Strings(assumed)
	sort.Strings(abstr)
	sort.Strings(modelled)
	var samples []any
	for i, o := range rep.All {
		if len(samples) >= 6 {
			break
		}
		if i%(len(rep.All)/6+1) == 0 {
			samples = append(samples, map[string]any{"obligation": o.Name, "clause": o.Text, "goal": trunc(o.Goal.S, 400), "status": o.Status, "solver": o.Solver, "ms": o.TimeMs})
		}
	}
	var nc []string
	seenNC := map[string]bool{}
	for _, o := range rep.NotClaimed {
		if !seenNC[o.Group] {
			seenNC[o.Group] = true
			nc = append(nc, o.Group+" ("+o.Status+")")
		}
	}
	var kf []string
	seenK := map[string]bool{}
	for _, o := range rep.Known {
		if !seenK[o.Group] {
			seenK[o.Group] = true
			kf = append(kf, o.Group)
		}
	}
	var op []string
	for _, o := range rep.OtherProp {
		op = append(op, o.Group+" "+strings.Join(o.Tags, ","))
	}
	trusted := []string{
		"kpv VC generator (this repository, /verif/kpv): symbolic execution of go/ssa, memory model, SMT encoding",
		"golang.org/x/tools/go/ssa v0.29.0 faithful to Go 1.24 semantics; gc compiler implements them",
		"SMT solvers: z3 4.8.12, z3-new 5.1.0, cvc5 1.0.x (unsat answers)",
		"integers are mathematical Int with overflow obligations; slices: append always reallocates; len <= 2^47",
	}
	for _, a := range assumed {
		trusted = append(trusted, "assumed contract: "+a)
	}
	for _, a := range modelled {
		trusted = append(trusted, "modelled by engine intrinsic: "+a)
	}
	ev := evidence{PropertyID: prop, Tier: rep.Tier, Seed: rep.Seed, Level: "proof", WallS: rep.WallS, Violations: violations,
		Coverage: map[string]any{
			"obligations":              claimed,
			"discharged":               discharged,
			"checker_cmd":              fmt.Sprintf("/verif/bin/kpv check --property %s --tier %s", prop, rep.Tier),
			"trusted_base":             trusted,
			"functions_under_contract": fns,
			"functions_inlined":        inl,
			"paths":                    paths,
			"trivially_true_obligations_not_sent_to_solver": trivial,
			"by_backend":              rep.byBackend,
			"solver_time_s":           float64(rep.solverMs) / 1000,
			"abstractions":            abstr,
			"not_claimed":             nc,
			"known_findings_printed":  kf,
			"other_property_failures": op,
			"obligations_tagged_for_other_properties_only_not_solved": skippedOther,
			"safety_obligations_outside_the_ledger_not_solved":        skippedUnclaimed,
			"engine_errors": rep.EngineErrors,
			"samples":       samples,
		},
		Assumptions: append(append([]string{}, assumed...), abstr...),
	}
	if len(rep.Bounded) > 0 {
		var bs []map[string]any
		for _, r := range rep.Bounded {
			bs = append(bs, r.evidence())
		}
		ev.Coverage["bounded_checks"] = bs
	}
	if ev.Assumptions == nil {
		ev.Assumptions = []string{}
	}
	os.MkdirAll(filepath.Join(verifDir, "evidence"), 0o755)
	data, _ := json.MarshalIndent(ev, "", " ")
	os.WriteFile(filepath.Join(verifDir, "evidence", prop+".json"), append(data, '\n'), 0o644)
}

// ---------------------------------------------------------------------------
// replay files
// ---------------------------------------------------------------------------

type replayFile struct {
	Property   string         `json:"property"`
	Obligation string         `json:"obligation"`
	Function   string         `json:"function"`
	Position   string         `json:"position"`
	Clause     string         `json:"clause"`
	Kind       string         `json:"kind"`
	Paths      []replayPath   `json:"paths"`
	Replay     map[string]any `json:"replay,omitempty"`
	Note       string         `json:"note,omitempty"`
}

type replayPath struct {
	Name    string            `json:"name"`
	Path    []string          `json:"path_conditions"`
	Answers map[string]string `json:"solver_answers"`
	Goal    string            `json:"goal"`
	Model   string            `json:"model,omitempty"`
	SMT     string            `json:"smt"`
}

func (eng *Engine) writeReplay(prop, group string, obls []*Obligation) string {
	dir := filepath.Join(verifDir, "replays", prop)
	os.MkdirAll(dir, 0o755)
	rf := replayFile{Property: prop, Obligation: group, Function: obls[0].Func, Position: obls[0].Pos, Clause: obls[0].Text, Kind: obls[0].Kind}
	for i, o := range obls {
		if i >= 3 {
			break
		}
		rp := replayPath{Name: o.Name, Path: o.Path, Answers: o.Answers, Goal: o.Goal.S, SMT: smtText(o, true)}
		if o.Status == "sat" || i == 0 {
			rp.Model = eng.getModel(o, 10000)
			o.Model = rp.Model
		}
		rf.Paths = append(rf.Paths, rp)
	}
	path := filepath.Join(dir, sanitize(group)+".json")
	data, _ := json.MarshalIndent(rf, "", " ")
	os.WriteFile(path, append(data, '\n'), 0o644)
	return path
}

func (eng *Engine) writeReplayText(prop, name, note string) string {
	dir := filepath.Join(verifDir, "replays", prop)
	os.MkdirAll(dir, 0o755)
	path := filepath.Join(dir, sanitize(name)+".json")
	data, _ := json.MarshalIndent(replayFile{Property: prop, Obligation: name, Note: note}, "", " ")
	os.WriteFile(path, append(data, '\n'), 0o644)
	return path
}

var _ = ssa.GlobalDebug

// cmdCore: debugging aid — minimal contradictory subset of the assumptions of
// an obligation (by name substring).
func cmdCore(args []string) int {
	fs := flag.NewFlagSet("core", flag.ExitOnError)
	name := fs.String("name", "", "obligation name substring")
	fs.Parse(args)
	eng := mustEngine(repoDir)
	defer os.RemoveAll(eng.tmpdir)
	for _, a := range fs.Args() {
		fn := eng.funcs[a]
		if fn == nil {
			continue
		}
		res := eng.verifyFunction(fn, eng.specs.Funcs[a], false)
		for _, o := range res.Obls {
			if !strings.Contains(o.Name, *name) {
				continue
			}
			var asserts []int
			for i, l := range o.Lines {
				if strings.HasPrefix(l, "(assert") {
					asserts = append(asserts, i)
				}
			}
			drop := map[int]bool{}
			check := func() string {
				var b strings.Builder
				b.WriteString("(set-logic ALL)\n")
				for i, l := range o.Lines {
					if !drop[i] {
						b.WriteString(l + "\n")
					}
				}
				b.WriteString("(check-sat)\n")
				f := filepath.Join(eng.tmpdir, "core.smt2")
				os.WriteFile(f, []byte(b.String()), 0o644)
				st, _ := runSolver(context.Background(), solvers[0], f, 3000)
				return st
			}
			if check() != "unsat" {
				fmt.Println(o.Name, ": assumptions not unsat")
				continue
			}
			for _, i := range asserts {
				drop[i] = true
				if check() != "unsat" {
					drop[i] = false
				}
			}
			fmt.Println("core of", o.Name)
			for _, i := range asserts {
				if !drop[i] {
					fmt.Println("  ", trunc(o.Lines[i], 500))
				}
			}
			break
		}
	}
	return 0
}
