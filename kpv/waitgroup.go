package main

import (
	"fmt"
	"strings"

	"golang.org/x/tools/go/ssa"
)

// waitGroupProtocol: the structured fork/join rule (conc.go) assumes the
// children's postconditions at wg.Wait(). That is only sound if the
// sync.WaitGroup is used by the book. For a function that waits on a WaitGroup
// of its own, the generator itself decides these shape obligations on the SSA:
//
//	add-before-spawn   every `go` of a closure that captures the WaitGroup is
//	                   dominated by a wg.Add(...) in the parent
//	no-add-in-child    no such closure calls wg.Add (it would race with Wait:
//	                   Wait may see the counter at zero and return at once)
//	done-in-child      every such closure calls wg.Done on every path to its
//	                   return (a deferred Done in its entry block, or a Done
//	                   dominating every return)
//	wait-after-spawn   no `go` of such a closure is reachable after wg.Wait()
//
// The number passed to Add is not compared with the number of children.
func (eng *Engine) waitGroupProtocol(fn *ssa.Function) []*Obligation {
	isWG := func(c *ssa.CallCommon, method string) bool {
		sc := c.StaticCallee()
		return sc != nil && sc.String() == "(*sync.WaitGroup)."+method
	}
	// the function's own WaitGroups that it waits on
	var wgs []ssa.Value
	var waits []*ssa.Call
	for _, b := range fn.Blocks {
		for _, in := range b.Instrs {
			if c, ok := in.(*ssa.Call); ok && isWG(&c.Call, "Wait") && len(c.Call.Args) == 1 {
				if a, ok := c.Call.Args[0].(*ssa.Alloc); ok && a.Parent() == fn {
					wgs = append(wgs, a)
					waits = append(waits, c)
				}
			}
		}
	}
	if len(wgs) == 0 {
		return nil
	}
	key := fnKey(fn)
	var out []*Obligation
	mk := func(name, text string, ok bool, why string, pos string) {
		g := key + "/waitgroup:" + name
		o := &Obligation{Name: g, Group: g, Kind: "waitgroup", Func: key, Pos: pos, Solver: "go/ssa", Status: "unsat", Text: text}
		if !ok {
			o.Status, o.Text = "sat", text+": "+why
		}
		out = append(out, o)
	}
	for wi, wg := range wgs {
		wait := waits[wi]
		// calls on wg in the parent
		var adds []ssa.Instruction
		for _, b := range fn.Blocks {
			for _, in := range b.Instrs {
				if c, ok := in.(*ssa.Call); ok && isWG(&c.Call, "Add") && len(c.Call.Args) > 0 && c.Call.Args[0] == wg {
					adds = append(adds, c)
				}
			}
		}
		dominated := func(by ssa.Instruction, x ssa.Instruction) bool {
			bb, xb := by.Block(), x.Block()
			if bb == xb {
				for _, in := range bb.Instrs {
					if in == by {
						return true
					}
					if in == x {
						return false
					}
				}
			}
			return bb.Dominates(xb)
		}
		reaches := func(from, to *ssa.BasicBlock) bool {
			seen := map[*ssa.BasicBlock]bool{}
			var dfs func(b *ssa.BasicBlock) bool
			dfs = func(b *ssa.BasicBlock) bool {
				if b == to {
					return true
				}
				if seen[b] {
					return false
				}
				seen[b] = true
				for _, s := range b.Succs {
					if dfs(s) {
						return true
					}
				}
				return false
			}
			for _, s := range from.Succs {
				if dfs(s) {
					return true
				}
			}
			return false
		}
		spawnOK, spawnWhy := true, ""
		childAddOK, childAddWhy := true, ""
		doneOK, doneWhy := true, ""
		afterOK, afterWhy := true, ""
		children := 0
		for _, b := range fn.Blocks {
			for _, in := range b.Instrs {
				g, ok := in.(*ssa.Go)
				if !ok {
					continue
				}
				mc, ok := g.Call.Value.(*ssa.MakeClosure)
				if !ok {
					continue
				}
				child := mc.Fn.(*ssa.Function)
				fvIdx := -1
				for i, bv := range mc.Bindings {
					if bv == wg {
						fvIdx = i
					}
				}
				if fvIdx < 0 {
					continue
				}
				children++
				fv := child.FreeVars[fvIdx]
				where := eng.fset.Position(g.Pos()).String()
				if i := strings.LastIndex(where, "/internal/"); i >= 0 {
					where = where[i+1:]
				}
				// add-before-spawn
				dom := false
				for _, a := range adds {
					if dominated(a, g) {
						dom = true
					}
				}
				if !dom {
					spawnOK, spawnWhy = false, "the goroutine started at "+where+" is not preceded by an Add on every path"
				}
				// wait-after-spawn
				if wait.Block() == g.Block() {
					for _, x := range b.Instrs {
						if x == wait {
							afterOK, afterWhy = false, "the goroutine started at "+where+" starts after the Wait"
							break
						}
						if x == g {
							break
						}
					}
				} else if reaches(wait.Block(), g.Block()) {
					afterOK, afterWhy = false, "the goroutine started at "+where+" can start after the Wait"
				}
				// inside the child
				var dones []ssa.Instruction
				deferred := false
				for _, cb := range child.Blocks {
					for _, cin := range cb.Instrs {
						switch c := cin.(type) {
						case *ssa.Call:
							if len(c.Call.Args) > 0 && c.Call.Args[0] == fv {
								if isWG(&c.Call, "Add") {
									childAddOK, childAddWhy = false, "the goroutine started at "+where+" calls Add itself; Wait may run before it"
								}
								if isWG(&c.Call, "Done") {
									dones = append(dones, c)
								}
							}
						case *ssa.Defer:
							if len(c.Call.Args) > 0 && c.Call.Args[0] == fv && isWG(&c.Call, "Done") && cb.Index == 0 {
								deferred = true
							}
							if len(c.Call.Args) > 0 && c.Call.Args[0] == fv && isWG(&c.Call, "Add") {
								childAddOK, childAddWhy = false, "the goroutine started at "+where+" calls Add itself"
							}
						}
					}
				}
				if !deferred {
					for _, cb := range child.Blocks {
						if len(cb.Instrs) == 0 {
							continue
						}
						if _, isRet := cb.Instrs[len(cb.Instrs)-1].(*ssa.Return); !isRet {
							continue
						}
						covered := false
						for _, d := range dones {
							if d.Block() == cb || d.Block().Dominates(cb) {
								covered = true
							}
						}
						if !covered {
							doneOK, doneWhy = false, "the goroutine started at "+where+" can return without calling Done"
						}
					}
				}
			}
		}
		if children == 0 {
			continue
		}
		sfx := ""
		if len(wgs) > 1 {
			sfx = fmt.Sprintf("#%d", wi+1)
		}
		pos := eng.fset.Position(wait.Pos()).String()
		if i := strings.LastIndex(pos, "/internal/"); i >= 0 {
			pos = pos[i+1:]
		}
		mk("add-before-spawn"+sfx, "every goroutine the function waits for is announced with wg.Add before it is started", spawnOK, spawnWhy, pos)
		mk("no-add-in-child"+sfx, "no goroutine the function waits for announces itself (wg.Add inside the goroutine races with wg.Wait)", childAddOK, childAddWhy, pos)
		mk("done-in-child"+sfx, "every goroutine the function waits for calls wg.Done on every path", doneOK, doneWhy, pos)
		mk("wait-after-spawn"+sfx, "no goroutine the function waits for is started after wg.Wait", afterOK, afterWhy, pos)
	}
	return out
}
