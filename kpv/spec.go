package main

import (
	"fmt"
	"os"
	"path/filepath"
	"sort"
	"strconv"
	"strings"
)

// ---------------------------------------------------------------------------
// Spec expression AST
// ---------------------------------------------------------------------------

type SVar struct {
	Name string
	Type string
}

type SExpr struct {
	Op   string // id int float str call sel index slice old forall exists not neg bin
	Name string // identifier / field / operator
	Args []*SExpr
	Vars []SVar
}

func (e *SExpr) String() string {
	if e == nil {
		return "<nil>"
	}
	switch e.Op {
	case "id", "int", "float":
		return e.Name
	case "str":
		return strconv.Quote(e.Name)
	case "call":
		as := []string{}
		for _, a := range e.Args[1:] {
			as = append(as, a.String())
		}
		return e.Args[0].String() + "(" + strings.Join(as, ", ") + ")"
	case "sel":
		return e.Args[0].String() + "." + e.Name
	case "index":
		return e.Args[0].String() + "[" + e.Args[1].String() + "]"
	case "slice":
		lo, hi := "", ""
		if e.Args[1] != nil {
			lo = e.Args[1].String()
		}
		if e.Args[2] != nil {
			hi = e.Args[2].String()
		}
		return e.Args[0].String() + "[" + lo + ":" + hi + "]"
	case "old":
		return "old(" + e.Args[0].String() + ")"
	case "forall", "exists":
		vs := []string{}
		for _, v := range e.Vars {
			vs = append(vs, v.Name+" "+v.Type)
		}
		return "(" + e.Op + " " + strings.Join(vs, ", ") + " :: " + e.Args[0].String() + ")"
	case "not":
		return "!" + e.Args[0].String()
	case "neg":
		return "-" + e.Args[0].String()
	case "bin":
		return "(" + e.Args[0].String() + " " + e.Name + " " + e.Args[1].String() + ")"
	}
	return "?" + e.Op
}

// ---------------------------------------------------------------------------
// Lexer
// ---------------------------------------------------------------------------

type tok struct {
	k string // id int float str op eof
	s string
}

func lexSpec(src string) ([]tok, error) {
	var out []tok
	i := 0
	for i < len(src) {
		c := src[i]
		switch {
		case c == ' ' || c == '\t' || c == '\n' || c == '\r':
			i++
		case c >= '0' && c <= '9':
			j := i
			isf := false
			for j < len(src) && (src[j] >= '0' && src[j] <= '9' || src[j] == '.' || src[j] == 'e' || src[j] == 'x' || (src[j] >= 'a' && src[j] <= 'f') || (src[j] >= 'A' && src[j] <= 'F') || src[j] == '_') {
				if src[j] == '.' {
					// do not swallow a '..' or a method selector
					if j+1 < len(src) && !(src[j+1] >= '0' && src[j+1] <= '9') {
						break
					}
					isf = true
				}
				j++
			}
			k := "int"
			if isf {
				k = "float"
			}
			out = append(out, tok{k, strings.ReplaceAll(src[i:j], "_", "")})
			i = j
		case c == '_' || c == '$' || c >= 'a' && c <= 'z' || c >= 'A' && c <= 'Z':
			j := i
			for j < len(src) && (src[j] == '_' || src[j] == '$' || src[j] >= 'a' && src[j] <= 'z' || src[j] >= 'A' && src[j] <= 'Z' || src[j] >= '0' && src[j] <= '9') {
				j++
			}
			out = append(out, tok{"id", src[i:j]})
			i = j
		case c == '`':
			j := strings.IndexByte(src[i+1:], '`')
			if j < 0 {
				return nil, fmt.Errorf("unterminated type quote in %q", src)
			}
			out = append(out, tok{"id", src[i+1 : i+1+j]})
			i += j + 2
		case c == '"':
			j := i + 1
			for j < len(src) && src[j] != '"' {
				if src[j] == '\\' {
					j++
				}
				j++
			}
			if j >= len(src) {
				return nil, fmt.Errorf("unterminated string in %q", src)
			}
			s, err := strconv.Unquote(src[i : j+1])
			if err != nil {
				return nil, fmt.Errorf("bad string %s: %v", src[i:j+1], err)
			}
			out = append(out, tok{"str", s})
			i = j + 1
		default:
			for _, op := range []string{"<==>", "==>", "::", "==", "!=", "<=", ">=", "&&", "||", "(", ")", "[", "]", ",", ".", ":", "<", ">", "+", "-", "*", "/", "%", "!", "?", "=", "{", "}", "&"} {
				if strings.HasPrefix(src[i:], op) {
					out = append(out, tok{"op", op})
					i += len(op)
					goto next
				}
			}
			return nil, fmt.Errorf("unexpected character %q in %q", c, src)
		next:
		}
	}
	out = append(out, tok{"eof", ""})
	return out, nil
}

// ---------------------------------------------------------------------------
// Parser
// ---------------------------------------------------------------------------

type sparser struct {
	t   []tok
	i   int
	src string
}

func parseSpecExpr(src string) (*SExpr, error) {
	toks, err := lexSpec(src)
	if err != nil {
		return nil, err
	}
	p := &sparser{t: toks, src: src}
	e, err := p.expr()
	if err != nil {
		return nil, err
	}
	if p.peek().k != "eof" {
		return nil, fmt.Errorf("trailing tokens at %q in %q", p.peek().s, src)
	}
	return e, nil
}

func (p *sparser) peek() tok { return p.t[p.i] }
func (p *sparser) next() tok { t := p.t[p.i]; p.i++; return t }
func (p *sparser) isOp(s string) bool {
	return p.t[p.i].k == "op" && p.t[p.i].s == s
}
func (p *sparser) accept(s string) bool {
	if p.isOp(s) {
		p.i++
		return true
	}
	return false
}
func (p *sparser) expect(s string) error {
	if !p.accept(s) {
		return fmt.Errorf("expected %q, got %q in %q", s, p.peek().s, p.src)
	}
	return nil
}

func (p *sparser) expr() (*SExpr, error) {
	if p.peek().k == "id" && (p.peek().s == "forall" || p.peek().s == "exists") {
		op := p.next().s
		var vars []SVar
		for {
			if p.peek().k != "id" {
				return nil, fmt.Errorf("quantifier: expected variable in %q", p.src)
			}
			name := p.next().s
			ty, err := p.typeText()
			if err != nil {
				return nil, err
			}
			vars = append(vars, SVar{name, ty})
			if p.accept(",") {
				continue
			}
			break
		}
		// variables declared without a type share the next declared type ("i, j int")
		for k := len(vars) - 2; k >= 0; k-- {
			if vars[k].Type == "" {
				vars[k].Type = vars[k+1].Type
			}
		}
		if err := p.expect("::"); err != nil {
			return nil, err
		}
		body, err := p.expr()
		if err != nil {
			return nil, err
		}
		return &SExpr{Op: op, Vars: vars, Args: []*SExpr{body}}, nil
	}
	return p.iff()
}

func (p *sparser) typeText() (string, error) {
	var b strings.Builder
	for {
		t := p.peek()
		if t.k == "op" && (t.s == "," || t.s == "::") || t.k == "eof" {
			break
		}
		b.WriteString(t.s)
		p.i++
	}
	return b.String(), nil
}

func (p *sparser) iff() (*SExpr, error) {
	l, err := p.imp()
	if err != nil {
		return nil, err
	}
	for p.accept("<==>") {
		r, err := p.imp()
		if err != nil {
			return nil, err
		}
		l = &SExpr{Op: "bin", Name: "<==>", Args: []*SExpr{l, r}}
	}
	return l, nil
}

func (p *sparser) imp() (*SExpr, error) {
	l, err := p.or()
	if err != nil {
		return nil, err
	}
	if p.accept("==>") {
		var r *SExpr
		if p.peek().k == "id" && (p.peek().s == "forall" || p.peek().s == "exists") {
			r, err = p.expr()
		} else {
			r, err = p.imp()
		}
		if err != nil {
			return nil, err
		}
		return &SExpr{Op: "bin", Name: "==>", Args: []*SExpr{l, r}}, nil
	}
	return l, nil
}

func (p *sparser) or() (*SExpr, error) {
	l, err := p.and()
	if err != nil {
		return nil, err
	}
	for p.accept("||") {
		r, err := p.and()
		if err != nil {
			return nil, err
		}
		l = &SExpr{Op: "bin", Name: "||", Args: []*SExpr{l, r}}
	}
	return l, nil
}

func (p *sparser) and() (*SExpr, error) {
	l, err := p.cmp()
	if err != nil {
		return nil, err
	}
	for p.accept("&&") {
		var r *SExpr
		if p.peek().k == "id" && (p.peek().s == "forall" || p.peek().s == "exists") {
			r, err = p.expr()
		} else {
			r, err = p.cmp()
		}
		if err != nil {
			return nil, err
		}
		l = &SExpr{Op: "bin", Name: "&&", Args: []*SExpr{l, r}}
	}
	return l, nil
}

func (p *sparser) cmp() (*SExpr, error) {
	l, err := p.add()
	if err != nil {
		return nil, err
	}
	for _, op := range []string{"==", "!=", "<=", ">=", "<", ">"} {
		if p.accept(op) {
			r, err := p.add()
			if err != nil {
				return nil, err
			}
			return &SExpr{Op: "bin", Name: op, Args: []*SExpr{l, r}}, nil
		}
	}
	return l, nil
}

func (p *sparser) add() (*SExpr, error) {
	l, err := p.mul()
	if err != nil {
		return nil, err
	}
	for {
		if p.accept("+") {
			r, err := p.mul()
			if err != nil {
				return nil, err
			}
			l = &SExpr{Op: "bin", Name: "+", Args: []*SExpr{l, r}}
		} else if p.accept("-") {
			r, err := p.mul()
			if err != nil {
				return nil, err
			}
			l = &SExpr{Op: "bin", Name: "-", Args: []*SExpr{l, r}}
		} else {
			return l, nil
		}
	}
}

func (p *sparser) mul() (*SExpr, error) {
	l, err := p.unary()
	if err != nil {
		return nil, err
	}
	for {
		var op string
		switch {
		case p.accept("*"):
			op = "*"
		case p.accept("/"):
			op = "/"
		case p.accept("%"):
			op = "%"
		default:
			return l, nil
		}
		r, err := p.unary()
		if err != nil {
			return nil, err
		}
		l = &SExpr{Op: "bin", Name: op, Args: []*SExpr{l, r}}
	}
}

func (p *sparser) unary() (*SExpr, error) {
	if p.accept("!") {
		e, err := p.unary()
		if err != nil {
			return nil, err
		}
		return &SExpr{Op: "not", Args: []*SExpr{e}}, nil
	}
	if p.accept("-") {
		e, err := p.unary()
		if err != nil {
			return nil, err
		}
		return &SExpr{Op: "neg", Args: []*SExpr{e}}, nil
	}
	return p.postfix()
}

func (p *sparser) postfix() (*SExpr, error) {
	e, err := p.primary()
	if err != nil {
		return nil, err
	}
	for {
		switch {
		case p.accept("."):
			if p.peek().k != "id" {
				return nil, fmt.Errorf("expected field name after '.' in %q", p.src)
			}
			e = &SExpr{Op: "sel", Name: p.next().s, Args: []*SExpr{e}}
		case p.accept("["):
			var lo, hi *SExpr
			if !p.isOp(":") {
				lo, err = p.expr()
				if err != nil {
					return nil, err
				}
			}
			if p.accept(":") {
				if !p.isOp("]") {
					hi, err = p.expr()
					if err != nil {
						return nil, err
					}
				}
				if err := p.expect("]"); err != nil {
					return nil, err
				}
				e = &SExpr{Op: "slice", Args: []*SExpr{e, lo, hi}}
			} else {
				if err := p.expect("]"); err != nil {
					return nil, err
				}
				e = &SExpr{Op: "index", Args: []*SExpr{e, lo}}
			}
		case p.accept("("):
			args := []*SExpr{e}
			if !p.isOp(")") {
				for {
					a, err := p.expr()
					if err != nil {
						return nil, err
					}
					args = append(args, a)
					if !p.accept(",") {
						break
					}
				}
			}
			if err := p.expect(")"); err != nil {
				return nil, err
			}
			if e.Op == "id" && e.Name == "old" && len(args) == 2 {
				e = &SExpr{Op: "old", Args: []*SExpr{args[1]}}
			} else {
				e = &SExpr{Op: "call", Args: args}
			}
		default:
			return e, nil
		}
	}
}

func (p *sparser) primary() (*SExpr, error) {
	t := p.next()
	switch t.k {
	case "id":
		return &SExpr{Op: "id", Name: t.s}, nil
	case "int":
		return &SExpr{Op: "int", Name: t.s}, nil
	case "float":
		return &SExpr{Op: "float", Name: t.s}, nil
	case "str":
		return &SExpr{Op: "str", Name: t.s}, nil
	case "op":
		if t.s == "(" {
			e, err := p.expr()
			if err != nil {
				return nil, err
			}
			if err := p.expect(")"); err != nil {
				return nil, err
			}
			return e, nil
		}
		if t.s == "*" { // pointer type used as an expression, e.g. typeis(x, *StaticCertManager)
			e, err := p.primary()
			if err != nil {
				return nil, err
			}
			return &SExpr{Op: "id", Name: "*" + e.String()}, nil
		}
	}
	return nil, fmt.Errorf("unexpected token %q in %q", t.s, p.src)
}

// ---------------------------------------------------------------------------
// Contract files
// ---------------------------------------------------------------------------

type Clause struct {
	Kind string // requires ensures invariant on_panic
	Tags []string
	Name string
	Expr *SExpr
	Text string
	File string
	Line int
}

type EmitSpec struct {
	Name string
	Args []*SExpr
	When *SExpr // optional guard
	Text string
}

type FuncContract struct {
	Key          string
	File         string
	Line         int
	Assumed      bool // external / trusted: not verified, listed in evidence
	Params       []string
	Results      []string
	Requires     []Clause
	Ensures      []Clause
	PanicEnsures []Clause
	Assigns      []*SExpr
	AssignsAll   bool
	HasAssigns   bool
	Emits        []EmitSpec
	Loops        map[int][]Clause
	LoopAssigns  map[int][]*SExpr
	Attrs        map[string]string
	Uses         []string // lemmas assumed while verifying this function
	MayEmit      []string // events the function may produce internally (besides its declared emits); "*" = anything
}

func (c *FuncContract) HasTag(tag string) bool {
	for _, cl := range c.Ensures {
		for _, t := range cl.Tags {
			if t == tag {
				return true
			}
		}
	}
	for _, cl := range c.PanicEnsures {
		for _, t := range cl.Tags {
			if t == tag {
				return true
			}
		}
	}
	for _, ls := range c.Loops {
		for _, cl := range ls {
			for _, t := range cl.Tags {
				if t == tag {
					return true
				}
			}
		}
	}
	if v, ok := c.Attrs["tags"]; ok {
		for _, t := range strings.Split(v, ",") {
			if strings.TrimSpace(t) == tag {
				return true
			}
		}
	}
	return false
}

type SpecFunc struct {
	Name   string
	Params []SVar
	Result string
	Body   *SExpr // nil: uninterpreted
	File   string
	Line   int
}

type GhostDecl struct {
	Name     string
	Params   []SVar // ghost pred/func over refs
	Result   string // bool int string ...
	Monotone bool
	IsField  bool   // ghost field T.name
	Owner    string // type key for fields
}

type Lemma struct {
	Name  string
	Tags  []string
	Expr  *SExpr
	Text  string
	Axiom bool
	File  string
	Line  int
	Uses  []string
}

type StoreHook struct {
	Field string // heap key, e.g. server.Target.state
	Ghost string
	At    string // "obj" or "val": which reference indexes the ghost
	Expr  *SExpr // over obj, val, old
	Text  string
}

type GuardDecl struct {
	Fields []string // heap-key prefixes
	Lock   string   // typeKey.field of the lock, e.g. server.Router.serviceLock
	RW     bool
}

type Specs struct {
	Funcs        map[string]*FuncContract
	SpecFuncs    map[string]*SpecFunc
	Ghosts       map[string]*GhostDecl
	Lemmas       []*Lemma
	Hooks        []*StoreHook
	Guards       []*GuardDecl
	LockRank     []string
	Immutable    []string
	Consts       map[string]string
	Files        []string
	LockInv      map[string][]Clause
	TypeInv      map[string][]Clause
	Frames       map[string][]*SExpr
	Persisted    []*Persisted
	Distinct     []*Distinct
	Flags        []*FlagDecl
	StableNonNil map[string]bool // heap keys whose non-nil-ness, once established, is never undone
	GlobalInv    []Clause        // invariants over shared state that hold at every instant (assumed at entry / after interference, proved at every return)
}

func newSpecs() *Specs {
	return &Specs{Funcs: map[string]*FuncContract{}, SpecFuncs: map[string]*SpecFunc{}, Ghosts: map[string]*GhostDecl{},
		StableNonNil: map[string]bool{}, Frames: map[string][]*SExpr{}, Consts: map[string]string{}, LockInv: map[string][]Clause{}, TypeInv: map[string][]Clause{}}
}

var itemKeywords = map[string]bool{
	"func": true, "assume": true, "requires": true, "ensures": true, "assigns": true, "emits": true,
	"loop": true, "on_panic": true, "spec": true, "ghost": true, "lemma": true, "axiom": true,
	"on_store": true, "guarded_by": true, "lock_rank": true, "immutable": true, "attr": true,
	"may_emit": true, "global_invariant": true, "stable": true, "frame": true, "uses": true, "params": true, "results": true, "lock_invariant": true, "type_invariant": true, "end": true, "persisted": true, "flags": true, "distinct": true,
}

// Distinct declares that package-level variables initialised with constants
// (context keys, cookie names, header names) have pairwise different values.
type Distinct struct {
	Tags  []string
	Names []string // pkg.Name
}

// Persisted declares that the named fields of a struct type make the round
// trip through encoding/json: exported, not tagged "-", pairwise distinct
// keys, of a type the reflection-based codec restores.
type Persisted struct {
	Type   string
	Fields []string
	Tags   []string
}

// FlagDecl declares which variable each command-line flag of a command is
// bound to (and optionally its default): decided from the SSA of the
// constructor, no solver.
type FlagDecl struct {
	Func     string
	Tags     []string
	Bindings []FlagBinding
}

type FlagBinding struct {
	Name, Path, Default string
}

type rawItem struct {
	text string
	line int
}

// loadSpecFile reads one contract/spec file. In .go files only lines starting
// with "//@" count (the marker is stripped); in .spec files every line counts
// and "#" starts a comment.
func (sp *Specs) loadSpecFile(path string) error {
	data, err := os.ReadFile(path)
	if err != nil {
		return err
	}
	sp.Files = append(sp.Files, path)
	isGo := strings.HasSuffix(path, ".go")
	var items []rawItem
	for n, line := range strings.Split(string(data), "\n") {
		if isGo {
			tl := strings.TrimSpace(line)
			if !strings.HasPrefix(tl, "//@") {
				continue
			}
			line = strings.TrimPrefix(tl, "//@")
		} else {
			if i := strings.Index(line, " #"); i >= 0 {
				line = line[:i]
			}
			if strings.HasPrefix(strings.TrimSpace(line), "#") {
				continue
			}
		}
		if strings.TrimSpace(line) == "" {
			continue
		}
		first := strings.Fields(line)[0]
		if i := strings.IndexAny(first, "[("); i >= 0 {
			first = first[:i]
		}
		if itemKeywords[first] && (isGo || !strings.HasPrefix(line, "        ")) {
			items = append(items, rawItem{strings.TrimSpace(line), n + 1})
		} else if len(items) > 0 {
			items[len(items)-1].text += " " + strings.TrimSpace(line)
		} else {
			return fmt.Errorf("%s:%d: text before any item", path, n+1)
		}
	}
	var cur *FuncContract
	for _, it := range items {
		if err := sp.parseItem(path, it, &cur); err != nil {
			return fmt.Errorf("%s:%d: %v", path, it.line, err)
		}
	}
	return nil
}

// splitHead parses `kw[TAG,TAG] name: rest` → tags, name, rest. The name is
// optional; it must be an identifier directly followed by ':' (not '::').
func splitHead(s string) (tags []string, name string, rest string) {
	s = strings.TrimSpace(s)
	if strings.HasPrefix(s, "[") {
		j := strings.Index(s, "]")
		for _, t := range strings.Split(s[1:j], ",") {
			tags = append(tags, strings.TrimSpace(t))
		}
		s = strings.TrimSpace(s[j+1:])
	}
	// optional name
	i := 0
	for i < len(s) && (s[i] == '_' || s[i] >= 'a' && s[i] <= 'z' || s[i] >= 'A' && s[i] <= 'Z' || s[i] >= '0' && s[i] <= '9') {
		i++
	}
	if i > 0 && i < len(s) && s[i] == ':' && !(i+1 < len(s) && s[i+1] == ':') {
		return tags, s[:i], strings.TrimSpace(s[i+1:])
	}
	return tags, "", s
}

func parseParams(s string) ([]SVar, error) {
	s = strings.TrimSpace(s)
	if s == "" {
		return nil, nil
	}
	var out []SVar
	for _, part := range strings.Split(s, ",") {
		f := strings.Fields(strings.TrimSpace(part))
		switch len(f) {
		case 1:
			out = append(out, SVar{f[0], ""})
		case 2:
			out = append(out, SVar{f[0], f[1]})
		default:
			return nil, fmt.Errorf("bad parameter %q", part)
		}
	}
	for k := len(out) - 2; k >= 0; k-- {
		if out[k].Type == "" {
			out[k].Type = out[k+1].Type
		}
	}
	return out, nil
}

func (sp *Specs) parseItem(path string, it rawItem, cur **FuncContract) error {
	text := it.text
	kw := strings.Fields(text)[0]
	if i := strings.IndexAny(kw, "[("); i >= 0 {
		kw = kw[:i]
	}
	rest := strings.TrimSpace(text[len(kw):])
	mkClause := func(kind string, body string) (Clause, error) {
		tags, name, ex := splitHead(body)
		e, err := parseSpecExpr(ex)
		if err != nil {
			return Clause{}, err
		}
		return Clause{Kind: kind, Tags: tags, Name: name, Expr: e, Text: ex, File: path, Line: it.line}, nil
	}
	needCur := func() error {
		if *cur == nil {
			return fmt.Errorf("%q outside a func block", kw)
		}
		return nil
	}
	switch kw {
	case "end":
		*cur = nil
	case "func", "assume":
		assumed := kw == "assume"
		key := rest
		if assumed {
			key = strings.TrimSpace(strings.TrimPrefix(rest, "func"))
		}
		if _, dup := sp.Funcs[key]; dup {
			return fmt.Errorf("duplicate contract for %s", key)
		}
		c := &FuncContract{Key: key, File: path, Line: it.line, Assumed: assumed, Loops: map[int][]Clause{}, LoopAssigns: map[int][]*SExpr{}, Attrs: map[string]string{}}
		sp.Funcs[key] = c
		*cur = c
	case "params":
		if err := needCur(); err != nil {
			return err
		}
		for _, p := range strings.Split(rest, ",") {
			(*cur).Params = append((*cur).Params, strings.TrimSpace(p))
		}
	case "results":
		if err := needCur(); err != nil {
			return err
		}
		for _, p := range strings.Split(rest, ",") {
			(*cur).Results = append((*cur).Results, strings.TrimSpace(p))
		}
	case "requires":
		if err := needCur(); err != nil {
			return err
		}
		cl, err := mkClause("requires", rest)
		if err != nil {
			return err
		}
		(*cur).Requires = append((*cur).Requires, cl)
	case "ensures":
		if err := needCur(); err != nil {
			return err
		}
		cl, err := mkClause("ensures", rest)
		if err != nil {
			return err
		}
		(*cur).Ensures = append((*cur).Ensures, cl)
	case "on_panic":
		if err := needCur(); err != nil {
			return err
		}
		body := strings.TrimSpace(strings.TrimPrefix(rest, "ensures"))
		cl, err := mkClause("on_panic", body)
		if err != nil {
			return err
		}
		(*cur).PanicEnsures = append((*cur).PanicEnsures, cl)
	case "assigns":
		if err := needCur(); err != nil {
			return err
		}
		(*cur).HasAssigns = true
		if rest == "nothing" {
			return nil
		}
		if rest == "*" {
			(*cur).AssignsAll = true
			return nil
		}
		for _, part := range splitTop(rest) {
			if strings.HasPrefix(part, "@") {
				(*cur).Assigns = append((*cur).Assigns, &SExpr{Op: "frameref", Name: part[1:]})
				continue
			}
			e, err := parseSpecExpr(part)
			if err != nil {
				return err
			}
			(*cur).Assigns = append((*cur).Assigns, e)
		}
	case "stable":
		*cur = nil
		f := strings.Fields(rest)
		if len(f) != 2 || f[1] != "nonnil" {
			return fmt.Errorf("stable: expected '<heap key> nonnil'")
		}
		sp.StableNonNil[f[0]] = true
	case "frame":
		*cur = nil
		kv := strings.SplitN(rest, "=", 2)
		name := strings.TrimSpace(kv[0])
		for _, part := range splitTop(kv[1]) {
			if strings.HasPrefix(part, "@") {
				sp.Frames[name] = append(sp.Frames[name], &SExpr{Op: "frameref", Name: part[1:]})
				continue
			}
			e, err := parseSpecExpr(part)
			if err != nil {
				return err
			}
			sp.Frames[name] = append(sp.Frames[name], e)
		}
	case "emits":
		if err := needCur(); err != nil {
			return err
		}
		body := rest
		var when *SExpr
		if i := strings.Index(body, " when "); i >= 0 {
			w, err := parseSpecExpr(body[i+6:])
			if err != nil {
				return err
			}
			when = w
			body = body[:i]
		}
		e, err := parseSpecExpr(body)
		if err != nil {
			return err
		}
		es := EmitSpec{When: when, Text: rest}
		if e.Op == "call" && e.Args[0].Op == "id" {
			es.Name = e.Args[0].Name
			es.Args = e.Args[1:]
		} else if e.Op == "id" {
			es.Name = e.Name
		} else {
			return fmt.Errorf("bad emits %q", rest)
		}
		(*cur).Emits = append((*cur).Emits, es)
	case "loop":
		if err := needCur(); err != nil {
			return err
		}
		f := strings.Fields(rest)
		n, err := strconv.Atoi(f[0])
		if err != nil {
			return fmt.Errorf("loop: bad ordinal %q", f[0])
		}
		body := strings.TrimSpace(rest[len(f[0]):])
		if strings.HasPrefix(body, "assigns") {
			for _, part := range splitTop(strings.TrimSpace(strings.TrimPrefix(body, "assigns"))) {
				e, err := parseSpecExpr(part)
				if err != nil {
					return err
				}
				(*cur).LoopAssigns[n] = append((*cur).LoopAssigns[n], e)
			}
			return nil
		}
		if !strings.HasPrefix(body, "invariant") {
			return fmt.Errorf("loop: expected 'invariant' or 'assigns'")
		}
		cl, err := mkClause("invariant", strings.TrimPrefix(body, "invariant"))
		if err != nil {
			return err
		}
		(*cur).Loops[n] = append((*cur).Loops[n], cl)
	case "may_emit":
		if err := needCur(); err != nil {
			return err
		}
		for _, n := range strings.Split(rest, ",") {
			(*cur).MayEmit = append((*cur).MayEmit, strings.TrimSpace(n))
		}
	case "attr":
		if err := needCur(); err != nil {
			return err
		}
		kv := strings.SplitN(rest, "=", 2)
		v := "true"
		if len(kv) == 2 {
			v = strings.TrimSpace(kv[1])
		}
		(*cur).Attrs[strings.TrimSpace(kv[0])] = v
	case "uses":
		for _, u := range strings.Split(rest, ",") {
			if *cur != nil {
				(*cur).Uses = append((*cur).Uses, strings.TrimSpace(u))
			}
		}
	case "spec":
		// spec func name(params) result [= body]    |   spec const NAME = value
		*cur = nil
		r := strings.TrimSpace(rest)
		if strings.HasPrefix(r, "const ") {
			kv := strings.SplitN(strings.TrimPrefix(r, "const "), "=", 2)
			sp.Consts[strings.TrimSpace(kv[0])] = strings.TrimSpace(kv[1])
			return nil
		}
		r = strings.TrimSpace(strings.TrimPrefix(r, "func"))
		op := strings.Index(r, "(")
		cp := matchParen(r, op)
		if op < 0 || cp < 0 {
			return fmt.Errorf("bad spec func")
		}
		name := strings.TrimSpace(r[:op])
		params, err := parseParams(r[op+1 : cp])
		if err != nil {
			return err
		}
		after := strings.TrimSpace(r[cp+1:])
		res := after
		var body *SExpr
		if i := strings.Index(after, "="); i >= 0 && !strings.HasPrefix(after[i:], "==") {
			res = strings.TrimSpace(after[:i])
			b, err := parseSpecExpr(after[i+1:])
			if err != nil {
				return err
			}
			body = b
		}
		sp.SpecFuncs[name] = &SpecFunc{Name: name, Params: params, Result: res, Body: body, File: path, Line: it.line}
	case "ghost":
		*cur = nil
		// ghost pred name(x *T) [monotone] | ghost func name(x T) R | ghost field T.name R
		f := strings.Fields(rest)
		switch f[0] {
		case "field":
			dot := strings.LastIndex(f[1], ".")
			sp.Ghosts[f[1][dot+1:]] = &GhostDecl{Name: f[1][dot+1:], IsField: true, Owner: f[1][:dot], Result: f[2]}
		case "pred", "func":
			r := strings.TrimSpace(rest[len(f[0]):])
			op := strings.Index(r, "(")
			cp := matchParen(r, op)
			name := strings.TrimSpace(r[:op])
			params, err := parseParams(r[op+1 : cp])
			if err != nil {
				return err
			}
			after := strings.Fields(r[cp+1:])
			g := &GhostDecl{Name: name, Params: params, Result: "bool"}
			for _, a := range after {
				if a == "monotone" {
					g.Monotone = true
				} else {
					g.Result = a
				}
			}
			sp.Ghosts[name] = g
		default:
			return fmt.Errorf("bad ghost declaration")
		}
	case "lemma", "axiom":
		*cur = nil
		tags, name, ex := splitHead(rest)
		var uses []string
		if i := strings.Index(ex, " using "); i >= 0 {
			for _, u := range strings.Split(ex[i+7:], ",") {
				uses = append(uses, strings.TrimSpace(u))
			}
			ex = ex[:i]
		}
		e, err := parseSpecExpr(ex)
		if err != nil {
			return err
		}
		sp.Lemmas = append(sp.Lemmas, &Lemma{Name: name, Tags: tags, Expr: e, Text: ex, Axiom: kw == "axiom", File: path, Line: it.line, Uses: uses})
	case "on_store":
		*cur = nil
		// on_store server.Target.state: everHealthy(obj) = expr
		i := strings.Index(rest, ":")
		field := strings.TrimSpace(rest[:i])
		body := strings.TrimSpace(rest[i+1:])
		eq := strings.Index(body, "=")
		lhs := strings.TrimSpace(body[:eq])
		gname := lhs[:strings.Index(lhs, "(")]
		at := strings.TrimSpace(lhs[strings.Index(lhs, "(")+1 : strings.Index(lhs, ")")])
		e, err := parseSpecExpr(body[eq+1:])
		if err != nil {
			return err
		}
		sp.Hooks = append(sp.Hooks, &StoreHook{Field: field, Ghost: gname, At: at, Expr: e, Text: body})
	case "guarded_by":
		*cur = nil
		// guarded_by a, b, c : Lock [rw]
		i := strings.LastIndex(rest, ":")
		g := &GuardDecl{}
		for _, f := range strings.Split(rest[:i], ",") {
			g.Fields = append(g.Fields, strings.TrimSpace(f))
		}
		lf := strings.Fields(rest[i+1:])
		g.Lock = lf[0]
		g.RW = len(lf) > 1 && lf[1] == "rw"
		sp.Guards = append(sp.Guards, g)
	case "lock_rank":
		*cur = nil
		for _, f := range strings.Split(rest, "<") {
			sp.LockRank = append(sp.LockRank, strings.TrimSpace(f))
		}
	case "flags":
		// flags[Cxx] <function key>: name -> path [= default]; name -> path ...
		*cur = nil
		tags := ""
		if strings.HasPrefix(rest, "[") {
			j := strings.Index(rest, "]")
			tags, rest = rest[1:j], strings.TrimSpace(rest[j+1:])
		}
		i := strings.Index(rest, ":")
		if i < 0 {
			return fmt.Errorf("flags: expected '<function>: name -> path; ...'")
		}
		fd := &FlagDecl{Func: strings.TrimSpace(rest[:i])}
		for _, t := range strings.Split(tags, ",") {
			if t = strings.TrimSpace(t); t != "" {
				fd.Tags = append(fd.Tags, t)
			}
		}
		for _, part := range strings.Split(rest[i+1:], ";") {
			part = strings.TrimSpace(part)
			if part == "" {
				continue
			}
			kv := strings.SplitN(part, "->", 2)
			if len(kv) != 2 {
				return fmt.Errorf("flags: bad entry %q", part)
			}
			b := FlagBinding{Name: strings.TrimSpace(kv[0])}
			pd := strings.SplitN(kv[1], "=", 2)
			b.Path = strings.TrimSpace(pd[0])
			if len(pd) == 2 {
				b.Default = strings.TrimSpace(pd[1])
			}
			fd.Bindings = append(fd.Bindings, b)
		}
		sp.Flags = append(sp.Flags, fd)
	case "distinct":
		// distinct[Cxx] pkg.name, pkg.name, ...
		*cur = nil
		d := &Distinct{}
		if strings.HasPrefix(rest, "[") {
			j := strings.Index(rest, "]")
			for _, t := range strings.Split(rest[1:j], ",") {
				if t = strings.TrimSpace(t); t != "" {
					d.Tags = append(d.Tags, t)
				}
			}
			rest = strings.TrimSpace(rest[j+1:])
		}
		for _, n := range strings.Split(rest, ",") {
			if n = strings.TrimSpace(n); n != "" {
				d.Names = append(d.Names, n)
			}
		}
		sp.Distinct = append(sp.Distinct, d)
	case "persisted":
		// persisted[Cxx] <type>: Field, Field, ...   (a JSON shape obligation)
		*cur = nil
		tags := ""
		if strings.HasPrefix(rest, "[") {
			j := strings.Index(rest, "]")
			tags, rest = rest[1:j], strings.TrimSpace(rest[j+1:])
		}
		i := strings.Index(rest, ":")
		if i < 0 {
			return fmt.Errorf("persisted: expected '<type>: fields'")
		}
		p := &Persisted{Type: strings.TrimSpace(rest[:i])}
		for _, t := range strings.Split(tags, ",") {
			if t = strings.TrimSpace(t); t != "" {
				p.Tags = append(p.Tags, t)
			}
		}
		for _, f := range strings.Split(rest[i+1:], ",") {
			p.Fields = append(p.Fields, strings.TrimSpace(f))
		}
		sp.Persisted = append(sp.Persisted, p)
	case "immutable":
		*cur = nil
		for _, f := range strings.Split(rest, ",") {
			sp.Immutable = append(sp.Immutable, strings.TrimSpace(f))
		}
	case "global_invariant":
		*cur = nil
		cl, err := mkClause(kw, rest)
		if err != nil {
			return err
		}
		sp.GlobalInv = append(sp.GlobalInv, cl)
	case "lock_invariant", "type_invariant":
		*cur = nil
		i := strings.Index(rest, ":")
		owner := strings.TrimSpace(rest[:i])
		cl, err := mkClause(kw, rest[i+1:])
		if err != nil {
			return err
		}
		if kw == "lock_invariant" {
			sp.LockInv[owner] = append(sp.LockInv[owner], cl)
		} else {
			sp.TypeInv[owner] = append(sp.TypeInv[owner], cl)
		}
	default:
		return fmt.Errorf("unknown item %q", kw)
	}
	return nil
}

func matchParen(s string, open int) int {
	if open < 0 {
		return -1
	}
	d := 0
	for i := open; i < len(s); i++ {
		switch s[i] {
		case '(':
			d++
		case ')':
			d--
			if d == 0 {
				return i
			}
		}
	}
	return -1
}

// splitTop splits on commas that are not nested in parentheses/brackets.
func splitTop(s string) []string {
	var out []string
	d := 0
	start := 0
	for i := 0; i < len(s); i++ {
		switch s[i] {
		case '(', '[':
			d++
		case ')', ']':
			d--
		case ',':
			if d == 0 {
				out = append(out, strings.TrimSpace(s[start:i]))
				start = i + 1
			}
		}
	}
	if strings.TrimSpace(s[start:]) != "" {
		out = append(out, strings.TrimSpace(s[start:]))
	}
	return out
}

func loadAllSpecs(repo, verif string) (*Specs, error) {
	sp := newSpecs()
	var files []string
	for _, pat := range []string{filepath.Join(verif, "spec", "*.spec"), filepath.Join(verif, "spec", "assumed", "*.spec"),
		filepath.Join(repo, "internal", "*", "zz_contracts*_verif.go")} {
		m, _ := filepath.Glob(pat)
		sort.Strings(m)
		files = append(files, m...)
	}
	for _, f := range files {
		if err := sp.loadSpecFile(f); err != nil {
			return nil, err
		}
	}
	return sp, nil
}
