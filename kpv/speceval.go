package main

import (
	"fmt"
	"go/token"
	"regexp"
	"sort"

	"golang.org/x/tools/go/ssa"
	"golang.org/x/tools/go/ssa/ssautil"

	"go/constant"
	"go/types"
	"math/big"
	"strconv"
	"strings"
)

var boundedIntRe = regexp.MustCompile(`^int\[(\d+)\.\.(\d+)\]$`)

var (
	tInt    = types.Typ[types.Int]
	tBool   = types.Typ[types.Bool]
	tString = types.Typ[types.String]
	tF64    = types.Typ[types.Float64]
	tRef    = types.Typ[types.UnsafePointer]
	tNil    = types.Typ[types.UntypedNil]
)

// SpecEnv is the context in which a spec expression is evaluated.
type SpecEnv struct {
	e       *Exec
	st      *State
	vars    map[string]Value
	view    *HeapView // nil: current heap of st
	old     *HeapView // what old(...) switches to
	pkg     *types.Package
	trace   []Event // events visible to trace predicates
	oldTop  Term    // allocTop at the "old" point (for fresh())
	oldNow  Term
	inQuant int
	what    string
	iter    *iterState
	nowT    *Term // overrides the clock (child finish time at a join)
}

func (env *SpecEnv) child() *SpecEnv {
	c := *env
	c.vars = make(map[string]Value, len(env.vars)+2)
	for k, v := range env.vars {
		c.vars[k] = v
	}
	return &c
}

type specError struct{ msg string }

func (s specError) Error() string { return s.msg }

func specFail(format string, a ...any) {
	panic(specError{fmt.Sprintf(format, a...)})
}

// evalBool evaluates a boolean spec expression to a term.
func (env *SpecEnv) evalBool(x *SExpr) (t Term, err error) {
	defer func() {
		if r := recover(); r != nil {
			if se, ok := r.(specError); ok {
				err = fmt.Errorf("%s: %s (in %s)", env.what, se.msg, x.String())
				return
			}
			panic(r)
		}
	}()
	v := env.eval(x)
	if len(v.L) != 1 || v.L[0].Sort != SBool {
		specFail("expression is not boolean: %s", x)
	}
	return v.L[0], nil
}

func (env *SpecEnv) evalValue(x *SExpr) (v Value, err error) {
	defer func() {
		if r := recover(); r != nil {
			if se, ok := r.(specError); ok {
				err = fmt.Errorf("%s: %s (in %s)", env.what, se.msg, x.String())
				return
			}
			panic(r)
		}
	}()
	return env.eval(x), nil
}

func (env *SpecEnv) specType(s string) types.Type {
	s = strings.TrimSpace(s)
	switch s {
	case "int", "int64":
		return tInt
	case "string":
		return tString
	case "bool":
		return tBool
	case "float64":
		return tF64
	case "ref", "":
		return tRef
	}
	if strings.HasPrefix(s, "*") {
		return types.NewPointer(env.specType(s[1:]))
	}
	if strings.HasPrefix(s, "[]") {
		return types.NewSlice(env.specType(s[2:]))
	}
	if i := strings.LastIndex(s, "."); i >= 0 && !strings.ContainsAny(s, "{( ") {
		// pkg.Type, looked up among the imports of env.pkg (and the program)
		pname, tname := s[:i], s[i+1:]
		for _, p := range env.e.eng.prog.AllPackages() {
			if p.Pkg.Name() == pname || p.Pkg.Path() == pname {
				if o := p.Pkg.Scope().Lookup(tname); o != nil {
					if tn, ok := o.(*types.TypeName); ok {
						return tn.Type()
					}
				}
			}
		}
		specFail("unknown type %s", s)
	}
	if env.pkg != nil {
		if o := env.pkg.Scope().Lookup(s); o != nil {
			if tn, ok := o.(*types.TypeName); ok {
				return tn.Type()
			}
		}
	}
	// fall back: search repo packages
	for _, sp := range env.e.eng.spkgs {
		if o := sp.Pkg.Scope().Lookup(s); o != nil {
			if tn, ok := o.(*types.TypeName); ok {
				return tn.Type()
			}
		}
	}
	// type literals (struct{...}, map[..].., func(...)) through the type checker
	pkg := env.pkg
	if pkg == nil {
		pkg = env.e.eng.spkgs["server"].Pkg
	}
	if tv, err := types.Eval(env.e.eng.fset, pkg, token.NoPos, s); err == nil && tv.IsType() {
		return tv.Type
	}
	specFail("unknown type %s", s)
	return nil
}

func sortOfSpecType(t types.Type) Sort {
	ls := flatten(t)
	if len(ls) != 1 {
		specFail("type %v is not scalar", t)
	}
	return ls[0].Sort
}

func boolV(t Term) Value { return Value{T: tBool, L: []Term{t}} }
func intV(t Term) Value  { return Value{T: tInt, L: []Term{t}} }
func strV(t Term) Value  { return Value{T: tString, L: []Term{t}} }

func (env *SpecEnv) eval(x *SExpr) Value {
	switch x.Op {
	case "int":
		n, ok := new(big.Int).SetString(x.Name, 0)
		if !ok {
			specFail("bad integer %s", x.Name)
		}
		return intV(BigLit(n))
	case "float":
		f, err := strconv.ParseFloat(x.Name, 64)
		if err != nil {
			specFail("bad float %s", x.Name)
		}
		return Value{T: tF64, L: []Term{f64Lit(f)}}
	case "str":
		return strV(StrLit(x.Name))
	case "id":
		return env.evalIdent(x.Name)
	case "old":
		if env.old == nil {
			specFail("old() not available here")
		}
		c := *env
		c.view = env.old
		return c.eval(x.Args[0])
	case "not":
		return boolV(Not(env.bool1(x.Args[0])))
	case "neg":
		v := env.eval(x.Args[0])
		if v.L[0].Sort == SF64 {
			return Value{T: tF64, L: []Term{App(SF64, "fp.neg", v.L[0])}}
		}
		return intV(App(SInt, "-", v.L[0]))
	case "bin":
		return env.evalBin(x)
	case "sel":
		return env.evalSel(x)
	case "index":
		return env.evalIndex(x)
	case "slice":
		return env.evalSliceExpr(x)
	case "call":
		return env.evalCall(x)
	case "forall", "exists":
		// bounded integer variables "int[lo..hi]" are expanded into ground instances
		for vi, v := range x.Vars {
			if m := boundedIntRe.FindStringSubmatch(v.Type); m != nil {
				lo, _ := strconv.Atoi(m[1])
				hi, _ := strconv.Atoi(m[2])
				if hi-lo > 5000 {
					specFail("bounded quantifier too large")
				}
				rest := &SExpr{Op: x.Op, Vars: append(append([]SVar{}, x.Vars[:vi]...), x.Vars[vi+1:]...), Args: x.Args}
				var parts []Term
				for n := lo; n <= hi; n++ {
					c := env.child()
					c.vars[v.Name] = intV(IntLit(int64(n)))
					if len(rest.Vars) == 0 {
						parts = append(parts, c.bool1(x.Args[0]))
					} else {
						parts = append(parts, c.bool1(rest))
					}
				}
				if x.Op == "forall" {
					return boolV(And(parts...))
				}
				return boolV(Or(parts...))
			}
		}
		c := env.child()
		c.inQuant++
		var binders []string
		var guards []Term
		for _, v := range x.Vars {
			t := env.specType(v.Type)
			ls := flatten(t)
			if len(ls) != 1 {
				specFail("quantified variable %s of non-scalar type %s", v.Name, v.Type)
			}
			name := env.e.freshName("q." + v.Name)
			binders = append(binders, fmt.Sprintf("(%s %s)", name, ls[0].Sort))
			val := Value{T: t, L: []Term{{name, ls[0].Sort}}}
			c.vars[v.Name] = val
			// (no range guard on reference variables: references are never
			// negative, and heap arrays are total, so the unguarded form is the
			// same statement about real objects and much friendlier to E-matching)
		}
		body := c.bool1(x.Args[0])
		if x.Op == "forall" {
			body = Implies(And(guards...), body)
		} else {
			body = And(append(guards, body)...)
		}
		if x.Op == "forall" {
			var names []string
			for _, b := range binders {
				names = append(names, strings.Fields(b[1:])[0])
			}
			if pats := autoPatterns(body.S, names); pats != "" {
				return boolV(Term{fmt.Sprintf("(forall (%s) (! %s %s))", strings.Join(binders, " "), body.S, pats), SBool})
			}
		}
		return boolV(Term{fmt.Sprintf("(%s (%s) %s)", x.Op, strings.Join(binders, " "), body.S), SBool})
	}
	specFail("cannot evaluate %s", x.Op)
	return Value{}
}

func f64Lit(f float64) Term {
	// exact: use the decimal expansion of the binary value through to_fp of a real ratio
	r := new(big.Rat).SetFloat64(f)
	if r == nil {
		specFail("bad float literal")
	}
	num, den := r.Num(), r.Denom()
	var real string
	if num.Sign() < 0 {
		real = fmt.Sprintf("(- (/ %s.0 %s.0))", new(big.Int).Neg(num).String(), den.String())
	} else {
		real = fmt.Sprintf("(/ %s.0 %s.0)", num.String(), den.String())
	}
	return Term{"((_ to_fp 11 53) RNE " + real + ")", SF64}
}

func (env *SpecEnv) bool1(x *SExpr) Term {
	v := env.eval(x)
	if len(v.L) != 1 || v.L[0].Sort != SBool {
		specFail("not boolean: %s", x)
	}
	return v.L[0]
}

func (env *SpecEnv) evalIdent(name string) Value {
	if v, ok := env.vars[name]; ok {
		return v
	}
	switch name {
	case "true":
		return boolV(True)
	case "false":
		return boolV(False)
	case "nil":
		return Value{T: tNil, L: []Term{Zero}}
	case "now":
		if env.view != nil && env.view == env.old {
			return Value{T: tInt, L: []Term{env.oldNow}}
		}
		if env.nowT != nil {
			return Value{T: tInt, L: []Term{*env.nowT}}
		}
		return Value{T: tInt, L: []Term{env.st.now}}
	case "spawntime":
		return Value{T: tInt, L: []Term{env.oldNow}}
	}
	if c, ok := env.e.eng.specs.Consts[name]; ok {
		x, err := parseSpecExpr(c)
		if err != nil {
			specFail("spec const %s: %v", name, err)
		}
		return env.eval(x)
	}
	if strings.HasPrefix(name, "*") {
		specFail("type %s used as value", name)
	}
	// package-level constant or variable
	var obj types.Object
	if env.pkg != nil {
		obj = env.pkg.Scope().Lookup(name)
	}
	if obj == nil {
		for _, sp := range env.e.eng.spkgs {
			if o := sp.Pkg.Scope().Lookup(name); o != nil {
				obj = o
				break
			}
		}
	}
	switch o := obj.(type) {
	case *types.Const:
		return env.e.constValue(o.Type(), o.Val())
	case *types.Var:
		for _, sp := range env.e.eng.spkgs {
			if sp.Pkg == o.Pkg() {
				if g, ok := sp.Members[name].(interface{ Type() types.Type }); ok {
					_ = g
				}
				if m := sp.Var(name); m != nil {
					return env.e.loadGlobal(env.st, m, env.view)
				}
			}
		}
	}
	specFail("unknown identifier %s", name)
	return Value{}
}

func (e *Exec) constValue(t types.Type, c constant.Value) Value {
	if c == nil {
		return zeroValue(t)
	}
	switch c.Kind() {
	case constant.Bool:
		return Value{T: t, L: []Term{BoolLit(constant.BoolVal(c))}}
	case constant.String:
		return Value{T: t, L: []Term{StrLit(constant.StringVal(c))}}
	case constant.Int:
		if isFloat(t) {
			f, _ := constant.Float64Val(c)
			return Value{T: t, L: []Term{f64Lit(f)}}
		}
		bi, ok := new(big.Int).SetString(c.ExactString(), 10)
		if !ok {
			specFail("bad int const %s", c.ExactString())
		}
		return Value{T: t, L: []Term{BigLit(bi)}}
	case constant.Float:
		if isInteger(t) {
			bi, _ := new(big.Int).SetString(c.ExactString(), 10)
			return Value{T: t, L: []Term{BigLit(bi)}}
		}
		f, _ := constant.Float64Val(c)
		return Value{T: t, L: []Term{f64Lit(f)}}
	}
	specFail("unsupported constant kind %v", c.Kind())
	return Value{}
}

func refLeaf(v Value) Term {
	// the leaf that is compared with nil
	if v.T != nil {
		if isSlice(v.T) {
			return v.L[0]
		}
		if isIface(v.T) {
			return v.L[0]
		}
	}
	if len(v.L) != 1 {
		specFail("cannot compare multi-leaf value with nil")
	}
	return v.L[0]
}

func isNilV(v Value) bool { return v.T == tNil }

func valuesEq(a, b Value) Term {
	if isNilV(a) && isNilV(b) {
		return True
	}
	if isNilV(a) {
		return Eq(refLeaf(b), Zero)
	}
	if isNilV(b) {
		return Eq(refLeaf(a), Zero)
	}
	if len(a.L) != len(b.L) {
		specFail("cannot compare values of %d and %d leaves", len(a.L), len(b.L))
	}
	var cs []Term
	for i := range a.L {
		if a.L[i].Sort != b.L[i].Sort {
			specFail("sort mismatch in comparison: %s vs %s", a.L[i].Sort, b.L[i].Sort)
		}
		cs = append(cs, GoEq(a.L[i], b.L[i]))
	}
	return And(cs...)
}

func (env *SpecEnv) evalBin(x *SExpr) Value {
	op := x.Name
	switch op {
	case "&&":
		return boolV(And(env.bool1(x.Args[0]), env.bool1(x.Args[1])))
	case "||":
		return boolV(Or(env.bool1(x.Args[0]), env.bool1(x.Args[1])))
	case "==>":
		return boolV(Implies(env.bool1(x.Args[0]), env.bool1(x.Args[1])))
	case "<==>":
		return boolV(Eq(env.bool1(x.Args[0]), env.bool1(x.Args[1])))
	}
	a := env.eval(x.Args[0])
	b := env.eval(x.Args[1])
	switch op {
	case "==":
		return boolV(valuesEq(a, b))
	case "!=":
		return boolV(Not(valuesEq(a, b)))
	}
	if len(a.L) != 1 || len(b.L) != 1 {
		specFail("operator %s on non-scalar", op)
	}
	at, bt := a.L[0], b.L[0]
	if at.Sort != bt.Sort {
		specFail("operator %s: sorts %s and %s", op, at.Sort, bt.Sort)
	}
	switch at.Sort {
	case SInt:
		switch op {
		case "+":
			return intV(Add(at, bt))
		case "-":
			return intV(Sub(at, bt))
		case "*":
			return intV(App(SInt, "*", at, bt))
		case "/":
			return intV(goDiv(at, bt))
		case "%":
			return intV(goMod(at, bt))
		case "<":
			return boolV(Lt(at, bt))
		case "<=":
			return boolV(Le(at, bt))
		case ">":
			return boolV(Gt(at, bt))
		case ">=":
			return boolV(Ge(at, bt))
		}
	case SStr:
		switch op {
		case "+":
			return strV(App(SStr, "str.++", at, bt))
		case "<":
			return boolV(App(SBool, "str.<", at, bt))
		case "<=":
			return boolV(App(SBool, "str.<=", at, bt))
		}
	case SF64:
		switch op {
		case "+":
			return Value{T: tF64, L: []Term{App(SF64, "fp.add RNE", at, bt)}}
		case "-":
			return Value{T: tF64, L: []Term{App(SF64, "fp.sub RNE", at, bt)}}
		case "*":
			return Value{T: tF64, L: []Term{App(SF64, "fp.mul RNE", at, bt)}}
		case "/":
			return Value{T: tF64, L: []Term{App(SF64, "fp.div RNE", at, bt)}}
		case "<":
			return boolV(App(SBool, "fp.lt", at, bt))
		case "<=":
			return boolV(App(SBool, "fp.leq", at, bt))
		case ">":
			return boolV(App(SBool, "fp.gt", at, bt))
		case ">=":
			return boolV(App(SBool, "fp.geq", at, bt))
		}
	case SReal:
		switch op {
		case "+", "-", "*", "/":
			return Value{T: tF64, L: []Term{App(SReal, op, at, bt)}}
		case "<", "<=", ">", ">=":
			return boolV(App(SBool, op, at, bt))
		}
	}
	specFail("operator %s not supported at sort %s", op, at.Sort)
	return Value{}
}

// goDiv / goMod: Go truncated division on mathematical integers.
func goDiv(a, b Term) Term {
	// SMT div is floor for positive divisor, ceil for negative: adjust to truncation
	q := App(SInt, "div", a, b)
	// truncated: if a >= 0 then (a div b) else -((-a) div b)  [for b>0]; general form:
	return Ite(Ge(a, Zero), q, App(SInt, "-", App(SInt, "div", App(SInt, "-", a), b)))
}

func goMod(a, b Term) Term {
	return Sub(a, App(SInt, "*", b, goDiv(a, b)))
}

func (env *SpecEnv) placeOfPtr(v Value) *Place {
	if v.P != nil {
		return v.P
	}
	pt, ok := v.T.Underlying().(*types.Pointer)
	if !ok {
		specFail("not a pointer: %v", v.T)
	}
	return &Place{Kind: PObj, Base: v.L[0], Typ: pt.Elem()}
}

func (env *SpecEnv) evalSel(x *SExpr) Value {
	// package-qualified identifiers are handled in evalCall; here X.f
	if x.Args[0].Op == "id" {
		if _, isVar := env.vars[x.Args[0].Name]; !isVar {
			// pkg.Const / pkg.Var?
			for _, p := range env.e.eng.prog.AllPackages() {
				if p.Pkg.Name() == x.Args[0].Name {
					if o := p.Pkg.Scope().Lookup(x.Name); o != nil {
						switch oo := o.(type) {
						case *types.Const:
							return env.e.constValue(oo.Type(), oo.Val())
						case *types.Var:
							if g := p.Var(x.Name); g != nil {
								return env.e.loadGlobal(env.st, g, env.view)
							}
						}
					}
				}
			}
		}
	}
	base := env.eval(x.Args[0])
	return env.selectField(base, x.Name)
}

func (env *SpecEnv) selectField(base Value, name string) Value {
	if base.T == nil {
		specFail("selector .%s on untyped value", name)
	}
	// ghost field?
	if g, ok := env.e.eng.specs.Ghosts[name]; ok && g.IsField {
		var p *Place
		if isPointer(base.T) {
			p = env.placeOfPtr(base)
		} else {
			specFail("ghost field .%s needs a pointer base", name)
		}
		prefix, two := placePrefix(p)
		if two {
			specFail("ghost field on element place")
		}
		key := prefix + "$" + name
		sort := sortOfSpecType(env.specType(g.Result))
		var arr Term
		if env.view == nil {
			arr = env.e.cur(env.st, key, sort, false)
			if fseq, isFresh := env.st.freshSeq[p.Base.S]; isFresh && env.inQuant == 0 {
				if r, ok := env.st.roots[key]; ok && r.seq < fseq {
					env.st.assert(Eq(Select(r.t, p.Base), zeroOf(sort)))
				}
			}
		} else {
			arr = env.e.curIn(env.view, key, sort, false)
		}
		return Value{T: env.specType(g.Result), L: []Term{Select(arr, env.e.placeIndex(p))}}
	}
	t := base.T
	if pt, ok := t.Underlying().(*types.Pointer); ok {
		st, ok := pt.Elem().Underlying().(*types.Struct)
		if !ok {
			specFail("selector .%s on pointer to non-struct %v", name, pt.Elem())
		}
		p := env.placeOfPtr(base)
		for i := 0; i < st.NumFields(); i++ {
			if st.Field(i).Name() == name {
				fp := fieldPlace(p, pt.Elem(), st, i)
				if _, isStruct := st.Field(i).Type().Underlying().(*types.Struct); isStruct && !transparentStruct(st.Field(i).Type()) {
					// an embedded library struct (bytes.Buffer, sync.Mutex, ...): denote it by its address
					return Value{T: types.NewPointer(st.Field(i).Type()), L: []Term{p.Base}, P: fp}
				}
				return env.e.loadPlace(env.st, fp, env.view)
			}
		}
		// promoted through embedded struct fields
		for i := 0; i < st.NumFields(); i++ {
			f := st.Field(i)
			if f.Embedded() {
				if _, ok := f.Type().Underlying().(*types.Struct); ok {
					fp := fieldPlace(p, pt.Elem(), st, i)
					inner := Value{T: types.NewPointer(f.Type()), L: []Term{p.Base}, P: fp}
					if hasField(f.Type(), name) {
						return env.selectField(inner, name)
					}
				}
			}
		}
		specFail("no field %s in %v", name, pt.Elem())
	}
	if st, ok := t.Underlying().(*types.Struct); ok {
		for i := 0; i < st.NumFields(); i++ {
			if st.Field(i).Name() == name {
				return fieldOf(base, i)
			}
		}
		specFail("no field %s in %v", name, t)
	}
	specFail("selector .%s on %v", name, t)
	return Value{}
}

func hasField(t types.Type, name string) bool {
	st, ok := t.Underlying().(*types.Struct)
	if !ok {
		return false
	}
	for i := 0; i < st.NumFields(); i++ {
		if st.Field(i).Name() == name {
			return true
		}
	}
	return false
}

// fieldPlace is the place of field i of the struct (type structT) stored at p.
func fieldPlace(p *Place, structT types.Type, st *types.Struct, i int) *Place {
	f := st.Field(i)
	switch p.Kind {
	case PObj:
		return &Place{Kind: PField, Base: p.Base, Root: structT, Path: "." + f.Name(), Typ: f.Type()}
	case PField:
		return &Place{Kind: PField, Base: p.Base, Root: p.Root, Path: p.Path + "." + f.Name(), Typ: f.Type()}
	case PGlobal:
		return &Place{Kind: PField, Base: Zero, Root: structT, Path: "@" + p.Glob.Name() + "." + f.Name(), Typ: f.Type()}
	case PElem:
		// element of struct type: address the field through a derived element key
		return &Place{Kind: PElem, Base: p.Base, Idx: p.Idx, Typ: f.Type(), Root: structT, Path: "." + f.Name()}
	}
	panic("fieldPlace")
}

func (env *SpecEnv) elemAt(s Value, i Term) Value {
	sl, ok := s.T.Underlying().(*types.Slice)
	if !ok {
		specFail("indexing non-slice %v", s.T)
	}
	p := &Place{Kind: PElem, Base: sliceBase(s), Idx: Add(sliceOff(s), i), Typ: sl.Elem()}
	return env.e.loadPlace(env.st, p, env.view)
}

func (env *SpecEnv) evalIndex(x *SExpr) Value {
	if x.Args[0].Op == "id" && x.Args[0].Name == "keys" && env.iter != nil {
		if _, shadow := env.vars["keys"]; !shadow {
			idx := env.eval(x.Args[1])
			mt := env.iter.m.T.Underlying().(*types.Map)
			return Value{T: mt.Key(), L: []Term{Select(env.iter.keys, idx.L[0])}}
		}
	}
	base := env.eval(x.Args[0])
	idx := env.eval(x.Args[1])
	if base.T == nil {
		specFail("index on untyped")
	}
	switch u := base.T.Underlying().(type) {
	case *types.Slice:
		return env.elemAt(base, idx.L[0])
	case *types.Map:
		// m[k] in a spec is the stored value; it is only meaningful under haskey(m, k)
		_, v := env.e.mapLookup(env.st, base, idx, env.view)
		_ = u
		return v
	case *types.Basic:
		if u.Info()&types.IsString != 0 {
			// byte at index as a one-character string
			return strV(App(SStr, "str.at", base.L[0], idx.L[0]))
		}
	}
	specFail("cannot index %v", base.T)
	return Value{}
}

func (env *SpecEnv) evalSliceExpr(x *SExpr) Value {
	base := env.eval(x.Args[0])
	var lo, hi Term
	lo = Zero
	if x.Args[1] != nil {
		lo = env.eval(x.Args[1]).L[0]
	}
	if isString(base.T) {
		if x.Args[2] != nil {
			hi = env.eval(x.Args[2]).L[0]
		} else {
			hi = App(SInt, "str.len", base.L[0])
		}
		return strV(App(SStr, "str.substr", base.L[0], lo, Sub(hi, lo)))
	}
	if isSlice(base.T) {
		if x.Args[2] != nil {
			hi = env.eval(x.Args[2]).L[0]
		} else {
			hi = sliceLen(base)
		}
		return mkSlice(base.T, sliceBase(base), Add(sliceOff(base), lo), Sub(hi, lo))
	}
	specFail("cannot slice %v", base.T)
	return Value{}
}

func (env *SpecEnv) lenOf(v Value) Term {
	switch {
	case isString(v.T):
		return App(SInt, "str.len", v.L[0])
	case isSlice(v.T):
		return sliceLen(v)
	case isMap(v.T):
		specFail("len of map not supported in specs")
	}
	specFail("len of %v", v.T)
	return Term{}
}

func (env *SpecEnv) evalCall(x *SExpr) Value {
	fnx := x.Args[0]
	args := x.Args[1:]
	name := ""
	switch fnx.Op {
	case "id":
		name = fnx.Name
	case "sel":
		if fnx.Args[0].Op == "id" {
			if _, isVar := env.vars[fnx.Args[0].Name]; !isVar {
				name = fnx.Args[0].Name + "." + fnx.Name
			}
		}
	}
	if name == "" {
		specFail("cannot call %s", fnx)
	}
	ev := func(i int) Value { return env.eval(args[i]) }
	t1 := func(i int) Term {
		v := ev(i)
		if len(v.L) != 1 {
			specFail("argument %d of %s is not scalar", i, name)
		}
		return v.L[0]
	}
	switch name {
	case "len":
		return intV(env.lenOf(ev(0)))
	case "ite":
		c := env.bool1(args[0])
		a, b := ev(1), ev(2)
		if len(a.L) != len(b.L) {
			specFail("ite branches differ in shape")
		}
		out := Value{T: a.T, L: make([]Term, len(a.L))}
		if isNilV(a) {
			out.T = b.T
		}
		for i := range a.L {
			out.L[i] = Ite(c, a.L[i], b.L[i])
		}
		return out
	case "min":
		a, b := t1(0), t1(1)
		return intV(Ite(Le(a, b), a, b))
	case "max":
		a, b := t1(0), t1(1)
		return intV(Ite(Ge(a, b), a, b))
	case "strings.HasPrefix":
		return boolV(App(SBool, "str.prefixof", t1(1), t1(0)))
	case "strings.HasSuffix":
		return boolV(App(SBool, "str.suffixof", t1(1), t1(0)))
	case "strings.Contains":
		return boolV(App(SBool, "str.contains", t1(0), t1(1)))
	case "strings.Index":
		return intV(App(SInt, "str.indexof", t1(0), t1(1), Zero))
	case "strings.TrimPrefix":
		s, p := t1(0), t1(1)
		return strV(Ite(App(SBool, "str.prefixof", p, s), App(SStr, "str.substr", s, App(SInt, "str.len", p), Sub(App(SInt, "str.len", s), App(SInt, "str.len", p))), s))
	case "substr":
		return strV(App(SStr, "str.substr", t1(0), t1(1), t1(2)))
	case "float64":
		v := t1(0)
		if v.Sort == SF64 {
			return Value{T: tF64, L: []Term{v}}
		}
		return Value{T: tF64, L: []Term{App(SF64, "(_ to_fp 11 53) RNE", App(SReal, "to_real", v))}}
	case "real":
		v := t1(0)
		switch v.Sort {
		case SF64:
			return Value{T: tF64, L: []Term{App(SReal, "fp.to_real", v)}}
		case SInt:
			return Value{T: tF64, L: []Term{App(SReal, "to_real", v)}}
		}
		return Value{T: tF64, L: []Term{v}}
	case "bytes":
		// bytes(p): the bytes of slice p as a string: the window [off, off+len) of its backing array's content
		v := ev(0)
		arr := env.e.cur(env.st, "ghost:bytes$str", SStr, false)
		if env.view != nil {
			arr = env.e.curIn(env.view, "ghost:bytes$str", SStr, false)
		}
		return strV(App(SStr, "str.substr", Select(arr, sliceBase(v)), sliceOff(v), sliceLen(v)))
	case "joined":
		// joined(s, sep): strings.Join of the []string s, as an uninterpreted
		// function of the slice's CONTENTS (backing array content, offset, length)
		v := ev(0)
		arr := env.e.cur(env.st, "elem:string", SStr, true)
		if env.view != nil {
			arr = env.e.curIn(env.view, "elem:string", SStr, true)
		}
		env.e.declareFun("sf.strJoin", []Sort{ArrS(SInt, SStr), SInt, SInt, SStr}, SStr)
		return strV(App(SStr, "sf.strJoin", Select(arr, sliceBase(v)), sliceOff(v), sliceLen(v), t1(1)))
	case "bytestr":
		// the string a []byte was converted from (valid for the whole, unmodified slice)
		v := ev(0)
		arr := env.e.cur(env.st, "ghost:bytes$str", SStr, false)
		if env.view != nil {
			arr = env.e.curIn(env.view, "ghost:bytes$str", SStr, false)
		}
		return strV(Select(arr, sliceBase(v)))
	case "fmt.Sprintf":
		f := t1(0)
		var leaves []Term
		var sorts []Sort
		for i := 1; i < len(args); i++ {
			v := ev(i)
			for _, l := range v.L {
				leaves = append(leaves, l)
				sorts = append(sorts, l.Sort)
			}
		}
		fname := env.e.sprintfName(f.S, sorts)
		env.e.declareFun(fname, sorts, SStr)
		return strV(App(SStr, fname, leaves...))
	case "oncePtr":
		// identity of the sync.Once embedded in a Buffer (b.closeOnce)
		v := ev(0)
		fv := env.selectField(v, "closeOnce")
		env.e.declareFun("fptr", []Sort{SInt, SInt}, SInt)
		return Value{T: tRef, L: []Term{App(SInt, "fptr", fv.P.Base, IntLit(int64(env.e.pathID(placeKeyOnly(fv.P)))))}}
	case "lockid":
		if args[0].Op != "str" {
			specFail("lockid wants a lock class name")
		}
		return intV(IntLit(int64(env.e.pathID(args[0].Name))))
	case "atomicbool":
		// value of a sync/atomic.Bool (by address)
		v := ev(0)
		arr := env.e.cur(env.st, "ghost:atomicBool", SBool, false)
		if env.view != nil {
			arr = env.e.curIn(env.view, "ghost:atomicBool", SBool, false)
		}
		return boolV(Select(arr, refLeaf(v)))
	case "spawned":
		// spawned("<closure key>", x): a child goroutine was started for x
		if args[0].Op != "str" {
			specFail("spawned: first argument must be the closure's key")
		}
		key := "ghost:spawned:" + args[0].Name
		arr := env.e.cur(env.st, key, SBool, false)
		if env.view != nil {
			arr = env.e.curIn(env.view, key, SBool, false)
		}
		return boolV(Select(arr, refLeaf(ev(1))))
	case "boundmethod":
		// boundmethod(f, "(*server.Target).rewrite", recv): f is the method value recv.rewrite
		f := ev(0)
		if args[1].Op != "str" {
			specFail("boundmethod: second argument must be a string literal")
		}
		key := args[1].Name + "$bound"
		fn := env.e.eng.funcs[key]
		if fn == nil {
			// bound wrappers are created lazily by go/ssa; find by name among all functions
			for f2 := range ssautilAll(env.e.eng) {
				if fnKey(f2) == key {
					fn = f2
					break
				}
			}
		}
		if fn == nil {
			specFail("boundmethod: no function %s", key)
		}
		recv := ev(2)
		fa := env.e.cur(env.st, "ghost:closure$fn", SInt, false)
		ba := env.e.cur(env.st, "ghost:closure$b0", SInt, false)
		if env.view != nil {
			fa = env.e.curIn(env.view, "ghost:closure$fn", SInt, false)
			ba = env.e.curIn(env.view, "ghost:closure$b0", SInt, false)
		}
		return boolV(And(Eq(Select(fa, f.L[0]), IntLit(int64(env.e.fnID(fn)))), Eq(Select(ba, f.L[0]), refLeaf(recv))))
	case "unbox":
		// unbox(x, T): the value of dynamic type T held by interface x
		v := ev(0)
		if !isIface(v.T) {
			specFail("unbox on non-interface")
		}
		t := env.specType(args[1].String())
		if pointerShaped(t) {
			return Value{T: t, L: []Term{v.L[1]}}
		}
		bt := boxType(t)
		return env.e.loadPlace(env.st, &Place{Kind: PField, Base: v.L[1], Root: bt, Path: ".v", Typ: t}, env.view)
	case "boxed":
		// boxed(ref, T): the value of type T stored in the interface box at ref
		v := ev(0)
		t := env.specType(args[1].String())
		if pointerShaped(t) {
			return Value{T: t, L: []Term{refLeaf(v)}}
		}
		bt := boxType(t)
		return env.e.loadPlace(env.st, &Place{Kind: PField, Base: refLeaf(v), Root: bt, Path: ".v", Typ: t}, env.view)
	case "mkiface":
		return Value{T: types.NewInterfaceType(nil, nil), L: []Term{t1(0), t1(1)}}
	case "dyntype":
		v := ev(0)
		if !isIface(v.T) {
			specFail("dyntype on non-interface")
		}
		return intV(v.L[0])
	case "errors.Is":
		a, b := ev(0), ev(1)
		env.e.declareFun("sf.errIs", []Sort{SInt, SInt, SInt, SInt}, SBool)
		return boolV(App(SBool, "sf.errIs", a.L[0], a.L[1], b.L[0], b.L[1]))
	case "errors.As", "errAsT", "errAsV":
		// errors.As(err, T): T is the type of the target variable (e.g. *net/http.MaxBytesError, net.Error)
		a := ev(0)
		t := env.specType(args[1].String())
		tid := IntLit(int64(env.e.eng.typeID(types.NewPointer(t))))
		switch name {
		case "errors.As":
			env.e.declareFun("sf.errAs", []Sort{SInt, SInt, SInt}, SBool)
			return boolV(App(SBool, "sf.errAs", a.L[0], a.L[1], tid))
		case "errAsT":
			env.e.declareFun("sf.errAsT", []Sort{SInt, SInt, SInt}, SInt)
			return intV(App(SInt, "sf.errAsT", a.L[0], a.L[1], tid))
		default:
			env.e.declareFun("sf.errAsV", []Sort{SInt, SInt, SInt}, SInt)
			return intV(App(SInt, "sf.errAsV", a.L[0], a.L[1], tid))
		}
	case "origin":
		// the request a re-contexted request derives from
		v := ev(0)
		arr := env.e.cur(env.st, "ghost:reqOrigin", SInt, false)
		if env.view != nil {
			arr = env.e.curIn(env.view, "ghost:reqOrigin", SInt, false)
		}
		o := Select(arr, refLeaf(v))
		return Value{T: tRef, L: []Term{Ite(Eq(o, Zero), refLeaf(v), o)}}
	case "ctxval":
		// ctxval(r, "server.contextKey:error-response"): payload stored under that key in r's context
		r := ev(0)
		k := t1(1)
		rp := env.e.reqCtxPlace(r)
		cv := env.e.loadPlace(env.st, rp, env.view)
		vv := env.e.cur(env.st, "ghost:ctx$valV", ArrS(SStr, SInt), false)
		if env.view != nil {
			vv = env.e.curIn(env.view, "ghost:ctx$valV", ArrS(SStr, SInt), false)
		}
		return Value{T: tRef, L: []Term{Select(Select(vv, cv.L[1]), k)}}
	case "ctxtyp":
		r := ev(0)
		k := t1(1)
		rp := env.e.reqCtxPlace(r)
		cv := env.e.loadPlace(env.st, rp, env.view)
		vt := env.e.cur(env.st, "ghost:ctx$valT", ArrS(SStr, SInt), false)
		if env.view != nil {
			vt = env.e.curIn(env.view, "ghost:ctx$valT", ArrS(SStr, SInt), false)
		}
		return intV(Select(Select(vt, cv.L[1]), k))
	case "zero":
		// zero(T): the zero value of type T
		return zeroValue(env.specType(args[0].String()))
	case "typeid":
		return intV(IntLit(int64(env.e.eng.typeID(env.specType(args[0].String())))))
	case "as":
		// as(x, *T): reinterpret a reference as a typed pointer
		v := ev(0)
		return Value{T: env.specType(args[1].String()), L: []Term{refLeaf(v)}}
	case "isnil":
		return boolV(Eq(refLeaf(ev(0)), Zero))
	case "ref":
		return Value{T: tRef, L: []Term{refLeaf(ev(0))}}
	case "typeis":
		v := ev(0)
		if !isIface(v.T) {
			specFail("typeis on non-interface")
		}
		tn := args[1].String()
		t := env.specType(tn)
		return boolV(Eq(v.L[0], IntLit(int64(env.e.eng.typeID(t)))))
	case "payload":
		v := ev(0)
		if !isIface(v.T) {
			specFail("payload on non-interface")
		}
		return Value{T: tRef, L: []Term{v.L[1]}}
	case "final":
		// final(p): the value of a reassigned parameter at return
		if a := args[0]; a.Op == "id" {
			if v, ok := env.vars["final$"+a.Name]; ok {
				return v
			}
		}
		return ev(0)
	case "fresh":
		v := ev(0)
		return boolV(Gt(refLeaf(v), env.oldTop))
	case "in":
		// in(x, s): x is an element of slice s
		v, s := ev(0), ev(1)
		q := env.e.freshName("q.in")
		qi := Term{q, SInt}
		el := env.elemAt(s, qi)
		return boolV(Term{fmt.Sprintf("(exists ((%s Int)) %s)", q, And(Le(Zero, qi), Lt(qi, sliceLen(s)), valuesEq(el, v)).S), SBool})
	case "haskey":
		m, k := ev(0), ev(1)
		ok, _ := env.e.mapLookup(env.st, m, k, env.view)
		return boolV(ok)
	case "held", "held_r":
		return boolV(BoolLit(env.e.lockHeldSpec(env.st, ev(0), name == "held")))
	case "emitted", "none", "count", "before", "first", "only", "last_is":
		return env.evalTrace(name, args)
	case "nowhere":
		// nowhere(E): no E here and none inside any callee (by their may_emit declarations)
		n := patName(args[0])
		for _, evn := range env.trace {
			if evn.MayLoop != nil && loopMayEmit(evn, n) {
				return boolV(False)
			}
		}
		return env.evalTrace("none", args)
	case "all":
		// all(E, cond): cond holds for every event named E on this path; inside
		// cond the event's arguments are $0, $1, ...
		n := patName(args[0])
		var cs []Term
		for _, evn := range env.trace {
			if evn.Deep {
				continue
			}
			if evn.MayLoop != nil {
				if loopMayEmit(evn, n) {
					proven := false
					for _, p := range evn.Proven[n] {
						if p == args[1].String() {
							proven = true
						}
					}
					if !proven {
						return boolV(False)
					}
				}
				continue
			}
			if evn.Name != n {
				continue
			}
			c := env.child()
			for i, a := range evn.Args {
				var t types.Type = tRef
				switch a.Sort {
				case SBool:
					t = tBool
				case SStr:
					t = tString
				case SF64:
					t = tF64
				}
				c.vars[fmt.Sprintf("$%d", i)] = Value{T: t, L: []Term{a}}
			}
			body := c.bool1(args[1])
			if evn.Cond.S != "" {
				body = Implies(evn.Cond, body)
			}
			cs = append(cs, body)
		}
		return boolV(And(cs...))
	}
	// spec function?
	if sf, ok := env.e.eng.specs.SpecFuncs[name]; ok {
		if len(args) != len(sf.Params) {
			specFail("%s: expected %d arguments", name, len(sf.Params))
		}
		if sf.Body != nil && !env.e.isOpaque(name) {
			c := &SpecEnv{e: env.e, st: env.st, vars: map[string]Value{}, view: env.view, old: env.old, pkg: env.pkg, trace: env.trace, oldTop: env.oldTop, oldNow: env.oldNow, what: env.what + "/" + name}
			for i, p := range sf.Params {
				c.vars[p.Name] = ev(i)
			}
			return c.eval(sf.Body)
		}
		// uninterpreted (one function symbol per leaf of the result type)
		var as []Term
		var sorts []Sort
		for i := range args {
			v := ev(i)
			for _, l := range v.L {
				as = append(as, l)
				sorts = append(sorts, l.Sort)
			}
		}
		rt := env.specType(sf.Result)
		ls := flatten(rt)
		out := Value{T: rt, L: make([]Term, len(ls))}
		for k, l := range ls {
			fname := "sf." + name
			if len(ls) > 1 {
				fname += "." + smtName(strings.TrimPrefix(l.Suffix, "#"))
			}
			if strings.HasSuffix(l.Suffix, "#off") {
				out.L[k] = Zero
				continue
			}
			env.e.declareFun(fname, sorts, l.Sort)
			out.L[k] = App(l.Sort, fname, as...)
		}
		return out
	}
	// ghost predicate / function over refs: stored as heap array ghost:<name>
	if g, ok := env.e.eng.specs.Ghosts[name]; ok && !g.IsField {
		rt := env.specType(g.Result)
		rs := sortOfSpecType(rt)
		if len(args) != 1 {
			specFail("ghost %s takes one argument", name)
		}
		key := "ghost:" + name
		var arr Term
		if env.view == nil {
			arr = env.e.cur(env.st, key, rs, false)
		} else {
			arr = env.e.curIn(env.view, key, rs, false)
		}
		return Value{T: rt, L: []Term{Select(arr, refLeaf(ev(0)))}}
	}
	specFail("unknown function %s", name)
	return Value{}
}

// ---------------------------------------------------------------------------
// Trace predicates. The trace of a path is a concrete list of events with
// symbolic arguments; predicates are unfolded over that list.
// ---------------------------------------------------------------------------

// evPattern: Name(args...) where an argument "_" matches anything.
func (env *SpecEnv) matchEvent(ev Event, pat *SExpr) (Term, bool) {
	name := ""
	var pargs []*SExpr
	switch pat.Op {
	case "id":
		name = pat.Name
	case "call":
		name = pat.Args[0].Name
		pargs = pat.Args[1:]
	default:
		specFail("bad event pattern %s", pat)
	}
	if ev.Name != name {
		return False, false
	}
	var cs []Term
	if ev.Cond.S != "" {
		cs = append(cs, ev.Cond)
	}
	for i, pa := range pargs {
		if pa.Op == "id" && pa.Name == "_" {
			continue
		}
		if i >= len(ev.Args) {
			specFail("event %s has %d arguments, pattern wants more", name, len(ev.Args))
		}
		v := env.eval(pa)
		t := refLeafOrScalar(v)
		if t.Sort != ev.Args[i].Sort {
			specFail("event %s argument %d: sort %s vs %s", name, i, t.Sort, ev.Args[i].Sort)
		}
		cs = append(cs, Eq(ev.Args[i], t))
	}
	return And(cs...), true
}

func refLeafOrScalar(v Value) Term {
	if isNilV(v) {
		return Zero
	}
	if v.T != nil && isIface(v.T) {
		return v.L[1]
	}
	if v.T != nil && isSlice(v.T) {
		return v.L[0]
	}
	if len(v.L) != 1 {
		specFail("event argument is not scalar")
	}
	return v.L[0]
}

func patName(pat *SExpr) string {
	if pat.Op == "id" {
		return pat.Name
	}
	if pat.Op == "call" && pat.Args[0].Op == "id" {
		return pat.Args[0].Name
	}
	specFail("bad event pattern %s", pat)
	return ""
}

func loopMayEmit(ev Event, name string) bool {
	for _, n := range ev.MayLoop {
		if n == name || n == "*" {
			return true
		}
	}
	return false
}

func (env *SpecEnv) evalTrace(pred string, args []*SExpr) Value {
	// callee-internal events (deep markers) are invisible to the direct-level predicates
	var tr []Event
	for _, ev := range env.trace {
		if !ev.Deep {
			tr = append(tr, ev)
		}
	}
	switch pred {
	case "emitted": // at least one matching event on this path
		var ds []Term
		for _, ev := range tr {
			if ev.MayLoop != nil {
				continue
			}
			if c, ok := env.matchEvent(ev, args[0]); ok {
				ds = append(ds, c)
			}
		}
		return boolV(Or(ds...))
	case "none": // no matching event, and no loop/unknown call that might emit one
		var cs []Term
		n := patName(args[0])
		for _, ev := range tr {
			if ev.MayLoop != nil {
				if loopMayEmit(ev, n) {
					// a loop whose own invariant says none(E) emitted none
					proven := false
					if !ev.Deep && args[0].Op == "id" {
						for _, p := range ev.Proven[n] {
							if p == "#none" {
								proven = true
							}
						}
					}
					if !proven {
						return boolV(False)
					}
				}
				continue
			}
			if c, ok := env.matchEvent(ev, args[0]); ok {
				cs = append(cs, Not(c))
			}
		}
		return boolV(And(cs...))
	case "count":
		n := patName(args[0])
		sum := Zero
		for _, ev := range tr {
			if ev.MayLoop != nil {
				if loopMayEmit(ev, n) {
					// unknown count: fresh unconstrained
					return intV(env.e.freshConst("count.unknown", SInt))
				}
				continue
			}
			if c, ok := env.matchEvent(ev, args[0]); ok {
				sum = Add(sum, Ite(c, One, Zero))
			}
		}
		return intV(sum)
	case "before": // some A precedes some B, i.e. exists i<j
		var ds []Term
		for i, a := range tr {
			if a.MayLoop != nil {
				continue
			}
			ca, ok := env.matchEvent(a, args[0])
			if !ok {
				continue
			}
			for _, b := range tr[i+1:] {
				if b.MayLoop != nil {
					continue
				}
				if cb, ok := env.matchEvent(b, args[1]); ok {
					ds = append(ds, And(ca, cb))
				}
			}
		}
		return boolV(Or(ds...))
	case "first": // every B is preceded by an A: forall j matching B exists i<j matching A
		nb := patName(args[1])
		var cs []Term
		for j, b := range tr {
			if b.MayLoop != nil {
				if loopMayEmit(b, nb) {
					// a B inside a loop: need an A strictly before the loop
					var ds []Term
					for _, a := range tr[:j] {
						if a.MayLoop != nil {
							continue
						}
						if ca, ok := env.matchEvent(a, args[0]); ok {
							ds = append(ds, ca)
						}
					}
					cs = append(cs, Or(ds...))
				}
				continue
			}
			cb, ok := env.matchEvent(b, args[1])
			if !ok {
				continue
			}
			var ds []Term
			for _, a := range tr[:j] {
				if a.MayLoop != nil {
					continue
				}
				if ca, ok := env.matchEvent(a, args[0]); ok {
					ds = append(ds, ca)
				}
			}
			cs = append(cs, Implies(cb, Or(ds...)))
		}
		return boolV(And(cs...))
	case "only": // only(E1, E2, ...): every event on the path has one of these names
		allowed := map[string]bool{}
		for _, a := range args {
			allowed[patName(a)] = true
		}
		for _, ev := range tr {
			if ev.MayLoop != nil {
				for _, n := range ev.MayLoop {
					if !allowed[n] {
						return boolV(False)
					}
				}
				continue
			}
			if !allowed[ev.Name] {
				return boolV(False)
			}
		}
		return boolV(True)
	case "last_is":
		for i := len(tr) - 1; i >= 0; i-- {
			if tr[i].MayLoop != nil {
				return boolV(False)
			}
			c, ok := env.matchEvent(tr[i], args[0])
			if !ok {
				return boolV(False)
			}
			return boolV(c)
		}
		return boolV(False)
	}
	specFail("unknown trace predicate %s", pred)
	return Value{}
}

func ssautilAll(eng *Engine) map[*ssa.Function]bool {
	return ssautil.AllFunctions(eng.prog)
}

// autoPatterns picks E-matching triggers for a universally quantified spec
// formula: for every bound variable the smallest (select A v) / (f v) terms in
// which it occurs directly as an argument and A does not mention bound variables.
// Returns "" when some variable has no such term (the solver then chooses).
func autoPatterns(body string, vars []string) string {
	isVar := map[string]bool{}
	for _, v := range vars {
		isVar[v] = true
	}
	cands := map[string][]string{}
	// scan all parenthesised subterms
	var stack []int
	for i := 0; i < len(body); i++ {
		switch body[i] {
		case '(':
			stack = append(stack, i)
		case ')':
			st := stack[len(stack)-1]
			stack = stack[:len(stack)-1]
			sub := body[st : i+1]
			if len(sub) > 200 || strings.HasPrefix(sub, "(forall") || strings.HasPrefix(sub, "(exists") || strings.HasPrefix(sub, "(!") {
				continue
			}
			toks := strings.Fields(strings.NewReplacer("(", " ", ")", " ").Replace(sub))
			if len(toks) < 2 {
				continue
			}
			head := toks[0]
			if head != "select" && !strings.HasPrefix(head, "sf.") {
				continue
			}
			// direct arguments: split top level
			args := topArgs(sub)
			var mentioned []string
			ok := true
			for ai, a := range args[1:] {
				if isVar[a] {
					mentioned = append(mentioned, a)
					continue
				}
				for _, t := range strings.Fields(strings.NewReplacer("(", " ", ")", " ").Replace(a)) {
					if isVar[t] {
						if head == "select" && ai == 0 {
							ok = false // array expression depends on a bound variable
						} else {
							ok = false
						}
					}
				}
			}
			if !ok || len(mentioned) == 0 {
				continue
			}
			for _, v := range mentioned {
				cands[v] = append(cands[v], sub)
			}
		}
	}
	if len(vars) == 1 {
		// single variable: every distinct candidate is an alternative trigger
		c := cands[vars[0]]
		if len(c) == 0 {
			return ""
		}
		sort.Slice(c, func(i, j int) bool { return len(c[i]) < len(c[j]) })
		var alts []string
		seen := map[string]bool{}
		for _, x := range c {
			if !seen[x] && len(alts) < 5 {
				seen[x] = true
				alts = append(alts, ":pattern ("+x+")")
			}
		}
		return strings.Join(alts, " ")
	}
	// one multi-pattern covering all variables, built from the shortest candidate per variable
	var parts []string
	seen := map[string]bool{}
	for _, v := range vars {
		c := cands[v]
		if len(c) == 0 {
			return ""
		}
		best := c[0]
		for _, x := range c {
			if len(x) < len(best) {
				best = x
			}
		}
		if !seen[best] {
			seen[best] = true
			parts = append(parts, best)
		}
	}
	return ":pattern (" + strings.Join(parts, " ") + ")"
}

func topArgs(sexp string) []string {
	inner := sexp[1 : len(sexp)-1]
	var out []string
	i := 0
	for i < len(inner) {
		for i < len(inner) && inner[i] == ' ' {
			i++
		}
		if i >= len(inner) {
			break
		}
		j := sortEnd(inner, i)
		out = append(out, inner[i:j])
		i = j
	}
	return out
}

// isOpaque: spec functions named in the contract's `attr opaque = a, b` are kept
// uninterpreted while verifying that function (the proof must not depend on
// their definition; this keeps string theory out of quantified array proofs).
func (e *Exec) isOpaque(name string) bool {
	if e.top == nil || e.top.contract == nil {
		return false
	}
	for _, n := range strings.Split(e.top.contract.Attrs["opaque"], ",") {
		if strings.TrimSpace(n) == name {
			return true
		}
	}
	return false
}
