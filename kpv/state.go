package main

import (
	"fmt"
	"go/token"
	"go/types"
	"sort"
	"strings"

	"golang.org/x/tools/go/ssa"
)

// Script is a persistent (shared-prefix) list of SMT-LIB commands.
type Script struct {
	parent *Script
	line   string
	n      int
}

func (s *Script) push(line string) *Script {
	n := 1
	if s != nil {
		n = s.n + 1
	}
	return &Script{parent: s, line: line, n: n}
}

func (s *Script) lines() []string {
	if s == nil {
		return nil
	}
	out := make([]string, s.n)
	for p := s; p != nil; p = p.parent {
		out[p.n-1] = p.line
	}
	return out
}

type Event struct {
	Name    string
	Args    []Term
	MayLoop []string // marker: a loop that may emit these event names any number of times ("*" = anything)
	Pos     token.Pos
	Cond    Term // event happened only if Cond (empty = unconditional)
	Deep    bool // MayLoop marker standing for a callee's internal events (its may_emit list)
	// Proven: for a loop marker, per event name the predicates P such that
	// `all(E, P)` is a declared (and therefore checked) invariant of that loop
	// and P reads the heap only through old(...): every E the loop emits
	// satisfies P, now and later.
	Proven map[string][]string
}

func (e Event) String() string {
	if e.MayLoop != nil {
		return "loop{" + strings.Join(e.MayLoop, ",") + "}"
	}
	as := []string{}
	for _, a := range e.Args {
		as = append(as, a.S)
	}
	return e.Name + "(" + strings.Join(as, ", ") + ")"
}

type LockHeld struct {
	ID    string // canonical text of the lock place
	Key   string // type-level name, e.g. server.Router.serviceLock
	Obj   Term   // owning object
	Write bool
}

type Deferred struct {
	Common *ssa.CallCommon
	Fn     Value   // for closure / dynamic calls
	Args   []Value // evaluated at defer time
	Pos    token.Pos
}

type loopEntry struct {
	locks  string
	nTrace int
}

type Frame struct {
	fn      *ssa.Function
	env     map[ssa.Value]Value
	block   *ssa.BasicBlock
	prev    *ssa.BasicBlock
	pc      int
	defers  []Deferred
	retTo   ssa.Value // value to bind in the caller (nil: discard)
	retMode int       // 0 normal call, 1 running a deferred call, 2 spawned (go) body
	loops   map[int]*loopEntry
	names   map[string]ssa.Value
	depth   int
	bind    []Value // free-variable bindings (closures)
	// range-over-map iteration state: Range instr -> (keys array, n, pos)
	iters     map[ssa.Value]*iterState
	unrolled  map[int]int // loop head -> passes executed (constant-trip loops run without a cut)
	panicking bool
	recovered bool      // a deferred call has recovered this frame's panic: run the remaining defers, then return through the Recover block
	seq       *seqCalls // statically known closures being run "concurrently" (PerformConcurrently)
}

type seqCalls struct {
	fns      []*FnVal
	idx      int
	startNow Term
	maxNow   Term
	retTo    ssa.Value
	mode     int
}

type iterState struct {
	keys  Term // Array Int K
	n     Term
	pos   Term
	m     Value
	str   bool
	posOf string
	dom   Term
}

func (f *Frame) clone() *Frame {
	g := *f
	g.env = make(map[ssa.Value]Value, len(f.env)+8)
	for k, v := range f.env {
		g.env[k] = v
	}
	g.defers = append([]Deferred(nil), f.defers...)
	g.loops = make(map[int]*loopEntry, len(f.loops))
	for k, v := range f.loops {
		g.loops[k] = v
	}
	g.names = make(map[string]ssa.Value, len(f.names))
	for k, v := range f.names {
		g.names[k] = v
	}
	if f.seq != nil {
		c := *f.seq
		g.seq = &c
	}
	if f.unrolled != nil {
		g.unrolled = make(map[int]int, len(f.unrolled))
		for k, v := range f.unrolled {
			g.unrolled[k] = v
		}
	}
	g.iters = make(map[ssa.Value]*iterState, len(f.iters))
	for k, v := range f.iters {
		c := *v
		g.iters[k] = &c
	}
	return &g
}

type State struct {
	script       *Script
	heap         map[string]Term
	epoch        int  // bumped by "havoc everything": untouched keys then start from H<epoch>
	epochSeq     int  // seq at which the current epoch began
	epochTop     Term // allocation frontier when the current epoch began
	frames       []*Frame
	trace        []Event
	locks        []LockHeld
	allocTop     Term
	now          Term
	pcs          []string
	notes        []string
	fresh        map[string]bool // refs allocated on this path (term text)
	published    map[string]bool
	pathID       string
	facts        map[string]bool
	arrVals      map[string]Value           // "base|idx" -> value stored in a freshly allocated array (static knowledge)
	seq          int                        // logical time: bumped by allocations and havocs
	freshSeq     map[string]int             // fresh ref -> seq at allocation
	foreignFresh map[string]bool            // fresh refs handed back by a callee (fields initialised there)
	roots        map[string]rootInfo        // heap key -> unknown array constant underlying the current version
	ownKeys      map[string]map[string]bool // fresh ref -> heap keys written at it (to carry private objects across havoc)
	defCache     map[string]string          // term text -> name it is bound to on this path
}

type rootInfo struct {
	t   Term
	seq int
}

func (st *State) clone() *State {
	n := *st
	n.heap = make(map[string]Term, len(st.heap))
	for k, v := range st.heap {
		n.heap[k] = v
	}
	n.frames = make([]*Frame, len(st.frames))
	for i, f := range st.frames {
		n.frames[i] = f.clone()
	}
	n.trace = append([]Event(nil), st.trace...)
	n.locks = append([]LockHeld(nil), st.locks...)
	n.pcs = append([]string(nil), st.pcs...)
	n.notes = append([]string(nil), st.notes...)
	n.fresh = make(map[string]bool, len(st.fresh))
	for k, v := range st.fresh {
		n.fresh[k] = v
	}
	n.published = make(map[string]bool, len(st.published))
	for k, v := range st.published {
		n.published[k] = v
	}
	n.facts = make(map[string]bool, len(st.facts))
	for k, v := range st.facts {
		n.facts[k] = v
	}
	n.defCache = make(map[string]string, len(st.defCache))
	for k, v := range st.defCache {
		n.defCache[k] = v
	}
	n.arrVals = make(map[string]Value, len(st.arrVals))
	for k, v := range st.arrVals {
		n.arrVals[k] = v
	}
	n.foreignFresh = make(map[string]bool, len(st.foreignFresh))
	for k, v := range st.foreignFresh {
		n.foreignFresh[k] = v
	}
	n.freshSeq = make(map[string]int, len(st.freshSeq))
	for k, v := range st.freshSeq {
		n.freshSeq[k] = v
	}
	n.roots = make(map[string]rootInfo, len(st.roots))
	for k, v := range st.roots {
		n.roots[k] = v
	}
	n.ownKeys = make(map[string]map[string]bool, len(st.ownKeys))
	for k, v := range st.ownKeys {
		m := make(map[string]bool, len(v))
		for kk := range v {
			m[kk] = true
		}
		n.ownKeys[k] = m
	}
	return &n
}

func (st *State) top() *Frame { return st.frames[len(st.frames)-1] }

func (st *State) assert(t Term) {
	if t.S == "true" || st.facts[t.S] {
		return
	}
	st.script = st.script.push("(assert " + t.S + ")")
	st.facts[t.S] = true
}

// assertBranch records a fact that holds because of the way control flowed
// (a branch condition), as opposed to a fact assumed from a contract or an
// invariant. The vacuity guard tells the two apart: a path that dies at a
// branch is dead code under the contracts; one that dies at an assumption
// means the assumptions contradict each other.
func (st *State) assertBranch(t Term) {
	if t.S == "true" || st.facts[t.S] {
		return
	}
	st.script = st.script.push("(assert " + t.S + ") ;branch")
	st.facts[t.S] = true
}

// known: the goal is literally among the asserted facts of this path.
func (st *State) known(t Term) bool {
	return st.facts[t.S]
}

func (st *State) assume(t Term, why string) {
	st.assert(t)
}

// HeapView is a snapshot of the heap versions (for old()).
type HeapView struct {
	m     map[string]Term
	epoch int
}

// heapSnapshot copies the current heap version map (for old()).
func (st *State) heapSnapshot() *HeapView {
	m := make(map[string]Term, len(st.heap))
	for k, v := range st.heap {
		m[k] = v
	}
	return &HeapView{m, st.epoch}
}

// ---------------------------------------------------------------------------
// Exec: per-function verification context (fresh names, declarations)
// ---------------------------------------------------------------------------

type Decl struct {
	name string
	line string
}

type Exec struct {
	eng           *Engine
	fn            *ssa.Function
	counter       int
	decls         []Decl
	declIdx       map[string]int
	obls          []*Obligation
	pathN         int
	keySort       map[string]Sort // heap key -> array sort
	abstractions  map[string]bool
	usedAssumed   map[string]bool
	inlined       map[string]bool
	budget        int
	epochs        int
	disc          *discoverCtx
	trivial       int
	aborted       bool
	pathIDs       map[string]int
	loopCache     map[*ssa.Function]map[int]*loopInfo
	specErrors    []string
	seenEvents    map[string]bool // names of direct-level events seen on any path
	top           *topCtx
	usedContracts map[string]bool
	modelled      map[string]bool
	checkLocks    bool
	pathsDone     int
	defBody       map[string]string // define-fun name -> body
	nameCache     map[*ssa.Function]map[string]ssa.Value
	keyKind       map[string]LeafKind // heap key -> leaf kind
}

func (e *Exec) freshName(hint string) string {
	e.counter++
	return fmt.Sprintf("%s!%d", smtName(hint), e.counter)
}

func (e *Exec) declare(name string, sort Sort) Term {
	if _, ok := e.declIdx[name]; !ok {
		e.declIdx[name] = len(e.decls)
		e.decls = append(e.decls, Decl{name, fmt.Sprintf("(declare-const %s %s)", name, sort)})
	}
	return Term{name, sort}
}

func (e *Exec) declareFun(name string, args []Sort, res Sort) {
	if _, ok := e.declIdx[name]; ok {
		return
	}
	as := []string{}
	for _, a := range args {
		as = append(as, string(a))
	}
	e.declIdx[name] = len(e.decls)
	e.decls = append(e.decls, Decl{name, fmt.Sprintf("(declare-fun %s (%s) %s)", name, strings.Join(as, " "), res)})
}

func (e *Exec) freshConst(hint string, sort Sort) Term {
	return e.declare(e.freshName(hint), sort)
}

// define binds a term to a name in the path script (sharing), unless it is
// already atomic.
func (e *Exec) define(st *State, hint string, t Term) Term {
	if len(t.S) < 24 && !strings.ContainsAny(t.S, " ") || isLit(t) {
		return t
	}
	if n, ok := st.defCache[t.S]; ok {
		return Term{n, t.Sort}
	}
	name := e.freshName(hint)
	st.script = st.script.push(fmt.Sprintf("(define-fun %s () %s %s)", name, t.Sort, t.S))
	e.defBody[name] = t.S
	st.defCache[t.S] = name
	return Term{name, t.Sort}
}

// ---------------------------------------------------------------------------
// Heap
// ---------------------------------------------------------------------------

// placePrefix gives the heap-key prefix of a place and whether the key is
// two-level (backing array -> index -> value).
func placePrefix(p *Place) (string, bool) {
	switch p.Kind {
	case PObj:
		if _, ok := p.Typ.Underlying().(*types.Struct); ok {
			return typeKey(p.Typ), false
		}
		return "cell:" + typeKey(p.Typ), false
	case PField:
		return typeKey(p.Root) + p.Path, false
	case PElem:
		if p.Root != nil {
			return "elem:" + typeKey(p.Root) + p.Path, true
		}
		return "elem:" + typeKey(p.Typ), true
	case PGlobal:
		return "glob:" + p.Glob.Pkg.Pkg.Name() + "." + p.Glob.Name(), false
	}
	panic("placePrefix")
}

// placeLeaves lists the leaves stored at a place (heap key + leaf).
func placeLeaves(p *Place) (keys []string, leaves []Leaf, two bool) {
	prefix, two := placePrefix(p)
	ls := flatten(p.Typ)
	for _, l := range ls {
		keys = append(keys, prefix+l.Suffix)
		leaves = append(leaves, l)
	}
	return keys, leaves, two
}

func (e *Exec) heapSort(key string, leafSort Sort, two bool) Sort {
	s := ArrS(SInt, leafSort)
	if two {
		s = ArrS(SInt, s)
	}
	if old, ok := e.keySort[key]; ok && old != s {
		panic(fmt.Sprintf("heap key %s used at sorts %s and %s", key, old, s))
	}
	e.keySort[key] = s
	return s
}

func h0Name(key string, epoch int) string { return fmt.Sprintf("H%d!%s", epoch, smtName(key)) }

// cur returns the current version of a heap array.
func (e *Exec) cur(st *State, key string, leafSort Sort, two bool) Term {
	if t, ok := st.heap[key]; ok {
		return t
	}
	s := e.heapSort(key, leafSort, two)
	ep, epSeq := st.epoch, st.epochSeq
	if immutableGhost(key) {
		ep, epSeq = 0, 0 // never havocked: one array for the whole function
	}
	t := e.declare(h0Name(key, ep), s)
	st.heap[key] = t
	st.roots[key] = rootInfo{t, epSeq}
	e.rootWF(st, key, t, two)
	if strings.HasPrefix(key, "ghost:") && !strings.Contains(key, "$") && !two {
		for ref, seq := range st.freshSeq {
			if seq > st.epochSeq && !st.foreignFresh[ref] {
				st.assert(Eq(Select(t, Term{ref, SInt}), zeroOf(leafSort)))
			}
		}
	}
	return t
}

// curIn reads a heap array version from a snapshot (old state); keys never
// touched before the snapshot are at their initial version.
func (e *Exec) curIn(snap *HeapView, key string, leafSort Sort, two bool) Term {
	if t, ok := snap.m[key]; ok {
		return t
	}
	s := e.heapSort(key, leafSort, two)
	if immutableGhost(key) {
		return e.declare(h0Name(key, 0), s)
	}
	return e.declare(h0Name(key, snap.epoch), s)
}

// rootWF: type invariants of an unknown heap array: slice lengths and offsets
// stored anywhere are non-negative and bounded by the address space.
func (e *Exec) rootWF(st *State, key string, t Term, two bool) {
	if strings.HasPrefix(key, "ghost:") {
		if g := e.eng.specs.Ghosts[strings.TrimPrefix(key, "ghost:")]; g != nil && !g.IsField && (g.Result == "ref" || strings.HasPrefix(g.Result, "*")) {
			e.keyKind[key] = KRef
		}
	}
	if e.keyKind[key] == KRef && (!strings.HasPrefix(key, "ghost:") || e.eng.specs.Ghosts[strings.TrimPrefix(key, "ghost:")] != nil) && !strings.HasPrefix(key, "map") {
		// every reference stored in an unknown heap array is allocated
		top := st.allocTop
		if strings.HasPrefix(t.S, "H") && strings.Contains(t.S, "!") && !strings.Contains(t.S, ".") {
			top = st.epochTop
		}
		if two && elemSort(elemSort(t.Sort)) == SInt {
			st.assert(Term{fmt.Sprintf("(forall ((b Int) (i Int)) (! (and (<= 0 (select (select %s b) i)) (<= (select (select %s b) i) %s)) :pattern ((select (select %s b) i))))", t.S, t.S, top.S, t.S), SBool})
		} else if !two && elemSort(t.Sort) == SInt {
			st.assert(Term{fmt.Sprintf("(forall ((r Int)) (! (and (<= 0 (select %s r)) (<= (select %s r) %s)) :pattern ((select %s r))))", t.S, t.S, top.S, t.S), SBool})
		}
	}
	if two || elemSort(t.Sort) != SInt {
		return
	}
	if strings.HasSuffix(key, "#len") {
		st.assert(Term{fmt.Sprintf("(forall ((r Int)) (! (and (<= 0 (select %s r)) (<= (select %s r) 140737488355328)) :pattern ((select %s r))))", t.S, t.S, t.S), SBool})
	}
	if strings.HasSuffix(key, "#off") {
		st.assert(Term{fmt.Sprintf("(forall ((r Int)) (! (<= 0 (select %s r)) :pattern ((select %s r))))", t.S, t.S), SBool})
	}
}

func (e *Exec) setHeap(st *State, key string, t Term) {
	st.heap[key] = e.define(st, "H."+key, t)
}

func (e *Exec) placeIndex(p *Place) Term {
	if p.Kind == PGlobal {
		return Zero
	}
	return p.Base
}

// loadPlace reads the value stored at p in the given heap view (nil = current).
func (e *Exec) loadPlace(st *State, p *Place, snap *HeapView) Value {
	keys, leaves, two := placeLeaves(p)
	v := Value{T: p.Typ, L: make([]Term, len(leaves))}
	fseq, isFresh := st.freshSeq[p.Base.S]
	for i, k := range keys {
		e.keyKind[k] = leaves[i].Kind
		var arr Term
		if snap == nil {
			arr = e.cur(st, k, leaves[i].Sort, two)
			// memory beyond the allocation frontier reads as zero: an object
			// allocated after the unknown array constant was introduced has a
			// zero entry in that constant
			if isFresh && !two && !st.foreignFresh[p.Base.S] {
				if r, ok := st.roots[k]; ok && r.seq < fseq {
					st.assert(Eq(Select(r.t, p.Base), zeroOf(leaves[i].Sort)))
				}
			}
		} else {
			arr = e.curIn(snap, k, leaves[i].Sort, two)
		}
		var t Term
		if two {
			t = Select(Select(arr, p.Base), p.Idx)
		} else {
			t = Select(arr, e.placeIndex(p))
		}
		if strings.HasSuffix(k, "#off") {
			// assumption (listed in evidence): slices held in memory start at
			// offset 0 of their backing array: they come from literals, append
			// or decoders, never from re-slicing with a non-zero low bound
			t = Zero
		}
		v.L[i] = t
	}
	return v
}

func (e *Exec) storePlace(st *State, p *Place, v Value) {
	if p.Kind == PElem && p.Root == nil && st.fresh[p.Base.S] && isLit(p.Idx) {
		st.arrVals[p.Base.S+"|"+p.Idx.S] = v
	}
	keys, leaves, two := placeLeaves(p)
	if len(v.L) != len(leaves) {
		panic(fmt.Sprintf("storePlace: %s has %d leaves, value of %v has %d: %v", p, len(leaves), v.T, len(v.L), v.L))
	}
	if st.fresh[p.Base.S] {
		if st.ownKeys[p.Base.S] == nil {
			st.ownKeys[p.Base.S] = map[string]bool{}
		}
		for _, k := range keys {
			st.ownKeys[p.Base.S][k] = true
		}
	}
	for i, k := range keys {
		e.keyKind[k] = leaves[i].Kind
		arr := e.cur(st, k, leaves[i].Sort, two)
		var n Term
		if two {
			inner := Select(arr, p.Base)
			n = Store(arr, p.Base, Store(inner, p.Idx, v.L[i]))
		} else {
			n = Store(arr, e.placeIndex(p), v.L[i])
		}
		e.setHeap(st, k, n)
	}
}

// assumeLoaded adds the type invariants of freshly read leaves (integer
// ranges, reference bounds, slice shape).
func (e *Exec) assumeLoaded(st *State, v Value) {
	ls := flatten(v.T)
	for i, l := range ls {
		switch l.Kind {
		case KInt:
			st.assert(inRange(l.Basic, v.L[i]))
		case KRef:
			st.assert(And(Le(Zero, v.L[i]), Le(v.L[i], st.allocTop)))
		}
		if strings.HasSuffix(l.Suffix, "#len") {
			st.assert(And(Le(Zero, v.L[i]), Le(v.L[i], Term{"140737488355328", SInt})))
			// nil slice has length 0
			st.assert(Implies(Eq(v.L[i-2], Zero), Eq(v.L[i], Zero)))
		}
		if strings.HasSuffix(l.Suffix, "#off") {
			st.assert(Le(Zero, v.L[i]))
		}
		if strings.HasSuffix(l.Suffix, "#ityp") {
			st.assert(Le(Zero, v.L[i]))
			// nil interface: type 0 <=> payload irrelevant; normalise payload 0
			st.assert(Implies(Eq(v.L[i], Zero), Eq(v.L[i+1], Zero)))
		}
	}
}

// alloc creates a fresh reference, distinct from everything older.
func (e *Exec) alloc(st *State, hint string) Term {
	r := e.define(st, "new."+hint, Add(st.allocTop, One))
	st.allocTop = r
	st.fresh[r.S] = true
	st.seq++
	st.freshSeq[r.S] = st.seq
	// memory beyond the allocation frontier reads as zero in every unknown
	// ghost array that already exists on this path
	// (in sorted order: the solvers' behaviour depends on the order of
	// assertions, and map iteration order would make it differ from run to run)
	var gks []string
	for k := range st.roots {
		if strings.HasPrefix(k, "ghost:") && !strings.Contains(k, "$") {
			gks = append(gks, k)
		}
	}
	sort.Strings(gks)
	for _, k := range gks {
		root := st.roots[k]
		if es := elemSort(root.t.Sort); es == SBool || es == SInt || es == SStr {
			st.assert(Eq(Select(root.t, r), zeroOf(es)))
		}
	}
	return r
}

// havocKey replaces a whole heap array by an unknown one.
func (e *Exec) havocKey(st *State, key string, leafSort Sort, two bool) {
	s := e.heapSort(key, leafSort, two)
	st.heap[key] = e.freshConst("Hv."+key, s)
	st.seq++
	st.roots[key] = rootInfo{st.heap[key], st.seq}
	e.rootWF(st, key, st.heap[key], two)
}

// havocAt replaces one object's entry in a heap array.
func (e *Exec) havocAt(st *State, key string, leafSort Sort, two bool, obj Term) Term {
	arr := e.cur(st, key, leafSort, two)
	f := e.freshConst("hv."+key, elemSort(arr.Sort))
	e.setHeap(st, key, Store(arr, obj, f))
	return f
}

// immutableGhost: write-once ghost maps describing objects that never change
// after creation (contexts, timers, closures, byte/string links). No call can
// alter them, so they survive "havoc everything".
var immutableKeys = map[string]bool{}

func immutableGhost(k string) bool {
	if immutableKeys[k] {
		return true
	}
	for p := range immutableKeys {
		if strings.HasPrefix(k, p+"#") || strings.HasPrefix(k, p+".") {
			return true
		}
	}
	switch k {
	case "ghost:ctxDeadline", "ghost:ctxParent", "ghost:ctxDone", "ghost:cancelCtx", "ghost:fireAt",
		"ghost:ctx$valT", "ghost:ctx$valV", "ghost:closure$fn", "ghost:bytes$str", "ghost:reqOrigin":
		return true
	}
	return strings.HasPrefix(k, "ghost:closure$b")
}

// havocAll forgets everything about the heap (unknown call).
func (e *Exec) havocAll(st *State) {
	type kv struct {
		k string
		t Term
	}
	var mono, stable []kv
	for k, t := range st.heap {
		if e.eng.specs.StableNonNil[k] {
			stable = append(stable, kv{k, t})
		}
		if strings.HasPrefix(k, "ghost:") {
			if g := e.eng.specs.Ghosts[strings.TrimPrefix(k, "ghost:")]; g != nil && g.Monotone {
				mono = append(mono, kv{k, t})
			}
		}
	}
	// objects this function allocated and has not handed to anyone keep their contents
	type keep struct {
		key  string
		ref  string
		old  Term
		sort Sort
	}
	var keeps []keep
	for ref, ks := range st.ownKeys {
		if st.published[ref] {
			continue
		}
		for k := range ks {
			if arr, ok := st.heap[k]; ok && strings.HasPrefix(string(arr.Sort), "(Array Int ") {
				keeps = append(keeps, keep{k, ref, arr, arr.Sort})
			}
		}
	}
	sort.Slice(mono, func(i, j int) bool { return mono[i].k < mono[j].k })
	sort.Slice(stable, func(i, j int) bool { return stable[i].k < stable[j].k })
	sort.Slice(keeps, func(i, j int) bool {
		if keeps[i].key != keeps[j].key {
			return keeps[i].key < keeps[j].key
		}
		return keeps[i].ref < keeps[j].ref
	})
	defer func() {
		for _, kp := range keeps {
			nw := e.cur(st, kp.key, elemSort(kp.sort), false)
			if nw.Sort != kp.sort {
				continue
			}
			st.assert(Eq(Select(nw, Term{kp.ref, SInt}), Select(kp.old, Term{kp.ref, SInt})))
		}
	}()
	st.epoch = e.nextEpoch()
	st.seq++
	st.epochSeq = st.seq
	st.epochTop = st.allocTop
	for k := range st.heap {
		if immutableGhost(k) {
			continue
		}
		delete(st.heap, k)
	}
	for k := range st.roots {
		if immutableGhost(k) {
			continue
		}
		delete(st.roots, k)
	}
	for _, m := range mono {
		nw := e.cur(st, m.k, elemSort(m.t.Sort), false)
		e.monotoneLinkFrom(st, m.k, m.t, nw)
	}
	// a field declared "stable nonnil" is never reset to nil by anyone
	for _, m := range stable {
		nw := e.cur(st, m.k, elemSort(m.t.Sort), false)
		st.assert(Term{fmt.Sprintf("(forall ((x Int)) (! (=> (not (= (select %s x) 0)) (not (= (select %s x) 0))) :pattern ((select %s x))))", m.t.S, nw.S, nw.S), SBool})
	}
}

func (e *Exec) nextEpoch() int {
	e.epochs++
	return e.epochs
}

func (e *Exec) note(st *State, s string) {
	e.abstractions[s] = true
}
