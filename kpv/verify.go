package main

import (
	"fmt"
	"go/token"
	"go/types"
	"reflect"
	"runtime/debug"
	"sort"
	"strings"

	"golang.org/x/tools/go/ssa"
)

func newExec(eng *Engine, fn *ssa.Function) *Exec {
	return &Exec{eng: eng, fn: fn, declIdx: map[string]int{}, keySort: map[string]Sort{}, abstractions: map[string]bool{},
		usedAssumed: map[string]bool{}, usedContracts: map[string]bool{}, inlined: map[string]bool{}, modelled: map[string]bool{}, seenEvents: map[string]bool{},
		defBody: map[string]string{}, nameCache: map[*ssa.Function]map[string]ssa.Value{}, keyKind: map[string]LeafKind{}, pathIDs: map[string]int{}, loopCache: map[*ssa.Function]map[int]*loopInfo{}, budget: 3000000}
}

type FuncResult struct {
	Key          string
	Obls         []*Obligation
	Paths        int
	Trivial      int
	Abstractions []string
	Assumed      []string
	Contracts    []string
	Inlined      []string
	Modelled     []string
	SpecErrors   []string
	Aborted      bool
	Panic        string
}

// verifyFunction symbolically executes fn against its contract c (which may
// be nil: then only safety / lock obligations are generated).
func (eng *Engine) verifyFunction(fn *ssa.Function, c *FuncContract, checkLocks bool) (res *FuncResult) {
	e := newExec(eng, fn)
	e.checkLocks = checkLocks
	res = &FuncResult{Key: fnKey(fn)}
	defer func() {
		if r := recover(); r != nil {
			if se, ok := r.(specError); ok {
				res.SpecErrors = append(res.SpecErrors, se.msg)
			} else {
				res.Panic = fmt.Sprint(r) + "\n" + string(debug.Stack())
			}
		}
		res.Obls = e.obls
		res.Paths = e.pathsDone
		res.Trivial = e.trivial
		res.Abstractions = sortedKeys(e.abstractions)
		res.Assumed = sortedKeys(e.usedAssumed)
		res.Contracts = sortedKeys(e.usedContracts)
		res.Inlined = sortedKeys(e.inlined)
		res.Modelled = sortedKeys(e.modelled)
		res.SpecErrors = append(res.SpecErrors, e.specErrors...)
		res.Aborted = e.aborted
		if c != nil && res.Panic == "" && !e.aborted {
			e.eventVacuity(c)
			res.Obls = e.obls
		}
		res.Obls = append(res.Obls, eng.waitGroupProtocol(fn)...)
		// attach declarations (sliced per obligation at emission time)
		for _, o := range res.Obls {
			o.Lines = append(e.declLines(o), o.Lines...)
		}
	}()
	if len(fn.Blocks) == 0 {
		res.Panic = "function has no body"
		return
	}
	st := &State{heap: map[string]Term{}, fresh: map[string]bool{}, published: map[string]bool{}, facts: map[string]bool{}, arrVals: map[string]Value{}, freshSeq: map[string]int{}, foreignFresh: map[string]bool{}, roots: map[string]rootInfo{}, ownKeys: map[string]map[string]bool{}, defCache: map[string]string{}}
	st.allocTop = e.declare("top0", SInt)
	st.now = e.declare("now0", SInt)
	st.assert(Le(Zero, st.allocTop))
	st.epochTop = st.allocTop
	st.pathID = "p0"
	e.pathN = 0
	var args []Value
	for _, p := range fn.Params {
		v := e.freshValue(st, p.Type(), "arg."+p.Name())
		zeroSliceOffsets(&v)
		if sl, ok := v.T.Underlying().(*types.Slice); ok {
			if bt, ok := sl.Elem().Underlying().(*types.Basic); ok && bt.Kind() == types.Uint8 {
				// the ghost content string of a byte slice's backing array covers the slice
				arr := e.cur(st, "ghost:bytes$str", SStr, false)
				st.assert(Ge(App(SInt, "str.len", Select(arr, sliceBase(v))), Add(sliceOff(v), sliceLen(v))))
			}
		}
		args = append(args, v)
	}
	var bind []Value
	var cells []Term
	for _, fv := range fn.FreeVars {
		pt, ok := fv.Type().(*types.Pointer)
		if !ok {
			bind = append(bind, e.freshValue(st, fv.Type(), "fv."+fv.Name()))
			continue
		}
		r := e.freshConst("fv."+fv.Name(), SInt)
		st.assert(And(Lt(Zero, r), Le(r, st.allocTop)))
		cells = append(cells, r)
		bind = append(bind, Value{T: fv.Type(), L: []Term{r}, P: &Place{Kind: PObj, Base: r, Typ: pt.Elem()}})
	}
	if len(cells) > 1 {
		st.assert(App(SBool, "distinct", cells...))
	}
	fr := e.newFrame(st, fn, args, bind)
	st.frames = []*Frame{fr}
	// receiver of a method is not nil (a nil receiver panics at the first field access)
	if fn.Signature.Recv() != nil && isPointer(fn.Signature.Recv().Type()) && len(args) > 0 {
		st.assert(Neq(args[0].L[0], Zero))
	}
	e.top = &topCtx{contract: c, fn: fn, params: map[string]Value{}, pkg: fn.Pkg.Pkg}
	for i, p := range fn.Params {
		e.top.params[p.Name()] = args[i]
	}
	e.top.entryTop = st.allocTop
	e.top.entryNow = st.now
	e.top.entry = st.heapSnapshot()
	if c != nil {
		env := e.topEnv(st, fr, nil, false)
		for _, u := range c.Uses {
			e.assumeLemma(st, env, u)
		}
		for _, rq := range c.Requires {
			// requires held(l): put the lock into the symbolic lock set first,
			// so that the clause itself evaluates to true at entry
			e.requireLocks(st, env, rq.Expr)
			t, err := env.evalBool(rq.Expr)
			if err != nil {
				e.specErr(err)
				continue
			}
			st.assert(t)
		}
		if len(c.Requires) > 0 || len(c.Uses) > 0 {
			o := &Obligation{Name: fnKey(fn) + "/vacuity:requires-sat", Group: fnKey(fn) + "/vacuity:requires-sat", Kind: "vacuity", Func: fnKey(fn),
				Lines: st.script.lines(), Goal: False, ExpectSat: true, Text: "preconditions and assumed lemmas are jointly satisfiable"}
			e.obls = append(e.obls, o)
		}
	}
	e.assumeGlobalInv(st)
	e.top.entry = st.heapSnapshot()
	e.top.entryLocks = lockSig(st)
	if !e.enterFirst(st) {
		return
	}
	e.run(st)
	return
}

func (e *Exec) declLines(o *Obligation) []string {
	used := map[string]bool{}
	scan := func(s string) {
		start := -1
		for i := 0; i <= len(s); i++ {
			if i < len(s) && s[i] != ' ' && s[i] != '(' && s[i] != ')' {
				if start < 0 {
					start = i
				}
				continue
			}
			if start >= 0 {
				used[s[start:i]] = true
				start = -1
			}
		}
	}
	for _, l := range o.Lines {
		scan(l)
	}
	scan(o.Goal.S)
	var out []string
	for _, d := range e.decls {
		if used[d.name] {
			out = append(out, d.line)
		}
	}
	return out
}

// requireLocks: `requires held(x.lock)` puts x.lock into the lock set.
func (e *Exec) requireLocks(st *State, env *SpecEnv, x *SExpr) {
	if x.Op == "bin" && x.Name == "&&" {
		e.requireLocks(st, env, x.Args[0])
		e.requireLocks(st, env, x.Args[1])
		return
	}
	if x.Op == "call" && x.Args[0].Op == "id" && (x.Args[0].Name == "held" || x.Args[0].Name == "held_r") {
		v, err := env.evalValue(x.Args[1])
		if err != nil {
			e.specErr(err)
			return
		}
		if id, key, obj, ok := e.lockIdent(v); ok {
			st.locks = append(st.locks, LockHeld{ID: id, Key: key, Obj: obj, Write: x.Args[0].Name == "held"})
			e.onAcquire(st, key, obj, v)
		}
	}
}

func (e *Exec) assumeLemma(st *State, env *SpecEnv, name string) {
	for _, l := range e.eng.specs.Lemmas {
		if l.Name == name {
			t, err := env.evalBool(l.Expr)
			if err != nil {
				e.specErr(err)
				return
			}
			st.assert(t)
			if l.Axiom {
				e.usedAssumed["axiom "+name] = true
			} else {
				e.usedContracts["lemma "+name] = true
			}
			return
		}
	}
	e.specErr(fmt.Errorf("unknown lemma %s", name))
}

// topEnv is the spec environment of the function under verification at entry
// (res == nil) or at a return.
func (e *Exec) topEnv(st *State, fr *Frame, res []Value, post bool) *SpecEnv {
	env := &SpecEnv{e: e, st: st, vars: map[string]Value{}, pkg: e.top.pkg, trace: st.trace, what: fnKey(e.fn)}
	for n, v := range e.top.params {
		env.vars[n] = v
	}
	for i, fv := range e.fn.FreeVars {
		if i < len(fr.bind) && fr.bind[i].P != nil {
			env.vars["&"+fv.Name()] = fr.bind[i]
			env.vars[fv.Name()+"$ptr"] = fr.bind[i]
			env.vars[fv.Name()] = e.loadPlace(st, fr.bind[i].P, nil)
		}
	}
	if post {
		env.old = e.top.entry
		env.oldTop = e.top.entryTop
		env.oldNow = e.top.entryNow
		e.bindResults(env, resultNames(e.top.contract, e.fn.Signature), e.fn.Signature, res)
		// named results
		for i, nr := range resultNames(e.top.contract, e.fn.Signature) {
			if i < len(res) {
				env.vars[nr] = res[i]
			}
		}
	}
	return env
}

func (e *Exec) finishPath(st *State, fr *Frame, res []Value, pos token.Pos, panicked bool) {
	e.pathsDone++
	if e.top.contract != nil {
		// vacuity guard: the assumptions accumulated along this path must not be contradictory
		o := &Obligation{Name: fnKey(e.fn) + "/vacuity:path-feasible#" + st.pathID, Group: fnKey(e.fn) + "/vacuity:path-feasible", Kind: "vacuity", Func: fnKey(e.fn),
			Lines: st.script.lines(), Goal: False, ExpectSat: true, Text: "the assumptions along this path are consistent", Pos: e.eng.posString(pos), Path: append([]string(nil), st.pcs...)}
		e.obls = append(e.obls, o)
	}
	c := e.top.contract
	if lockSig(st) != e.top.entryLocks {
		e.oblige(st, "lock", "balance", False, pos, []string{"C18"}, "locks held at return differ from locks held at entry: "+lockSig(st)+" vs "+e.top.entryLocks)
	}
	if c == nil {
		return
	}
	for i, r := range res {
		res[i].T = e.fn.Signature.Results().At(i).Type()
		_ = r
	}
	env := e.topEnv(st, fr, res, true)
	for n, v := range e.specEnvFor(st, fr).vars {
		_, have := env.vars[n]
		_, cell := fr.names["&"+n]
		if sv, ok := fr.names[n]; ok {
			if _, isParam := sv.(*ssa.Parameter); !isParam {
				cell = true // the source variable was reassigned: use its current value
			}
		}
		if _, isParam := e.top.params[n]; !isParam {
			cell = false // result names keep their meaning
		}
		if cell {
			// a parameter the body reassigns: in a postcondition its name
			// denotes the ENTRY value (as in JML/Dafny/Gobra); final(x) is
			// the value at return
			env.vars["final$"+n] = v
			cell = false
		}
		if !have || cell {
			// (a variable whose address is taken, e.g. captured by a deferred
			// closure, denotes its current value; old(...) still sees the entry heap)
			env.vars[n] = v
		}
	}
	clauses := c.Ensures
	kind := "ensures"
	if panicked {
		clauses = c.PanicEnsures
		kind = "on_panic"
	}
	for i, cl := range clauses {
		t, err := env.evalBool(cl.Expr)
		if err != nil {
			e.specErr(err)
			continue
		}
		name := cl.Name
		if name == "" {
			name = fmt.Sprintf("%d", i+1)
		}
		e.oblige(st, kind, name, t, pos, cl.Tags, cl.Text)
	}
	e.traceFrame(st, c, pos)
	if panicked {
		return
	}
	e.checkGlobalInv(st, pos)
	e.frameObligations(st, c, pos)
}

// frameObligations: every heap array changed on this path may differ from its
// entry version only at the objects named in `assigns` (objects allocated by
// the function itself are free).
func (e *Exec) frameObligations(st *State, c *FuncContract, pos token.Pos) {
	if c.AssignsAll || c.Attrs["noframe"] == "true" {
		return
	}
	entry := e.top.entry
	if st.epoch != entry.epoch {
		e.oblige(st, "frame", "unknown-call", False, pos, nil, "an unknown call may have written anything")
		return
	}
	envEntry := &SpecEnv{e: e, st: st, vars: map[string]Value{}, pkg: e.top.pkg, view: entry, what: "assigns of " + c.Key}
	for n, v := range e.top.params {
		envEntry.vars[n] = v
	}
	if fr := st.frames[0]; fr != nil {
		for i, fv := range e.fn.FreeVars {
			if i < len(fr.bind) && fr.bind[i].P != nil {
				envEntry.vars[fv.Name()] = e.loadPlace(st, fr.bind[i].P, entry)
				envEntry.vars[fv.Name()+"$ptr"] = fr.bind[i]
			}
		}
	}
	targets := e.assignTargets(envEntry, c, c.Assigns)
	byKey := map[string][]assignTarget{}
	for _, t := range targets {
		byKey[t.key] = append(byKey[t.key], t)
	}
	var keys []string
	for k := range st.heap {
		keys = append(keys, k)
	}
	sort.Strings(keys)
	for _, k := range keys {
		cur := st.heap[k]
		old, ok := entry.m[k]
		if !ok {
			old = Term{h0Name(k, entry.epoch), cur.Sort}
		}
		if cur.S == old.S {
			continue
		}
		if c.Attrs["blocks"] == "true" && e.interferenceKey(k) {
			// changed by other goroutines while this one was blocked, not by this function
			continue
		}
		if k == "ghost:closedAt" || strings.HasPrefix(k, "ghost:spawned:") {
			// write-once companion of closed(): determined by the close events
			continue
		}
		whole := false
		var excl []Term
		for _, t := range byKey[k] {
			if t.whole {
				whole = true
			}
			excl = append(excl, t.obj)
		}
		if whole {
			continue
		}
		r := Term{"fr!r", SInt}
		conds := []Term{Le(Zero, r), Le(r, e.top.entryTop)}
		for _, x := range excl {
			conds = append(conds, Neq(r, x))
		}
		body := Implies(And(conds...), Eq(Select(cur, r), Select(old, r)))
		if cur.Sort != old.Sort {
			continue
		}
		goal := Term{fmt.Sprintf("(forall ((fr!r Int)) %s)", body.S), SBool}
		e.oblige(st, "frame", k, goal, pos, nil, "only objects named in assigns (or allocated here) may change in "+k)
	}
}

// ---------------------------------------------------------------------------
// Lemmas
// ---------------------------------------------------------------------------

// eventVacuity: trace predicates range over the events of this function's own
// level (its own emits and those its callees' contracts emit). A clause that
// speaks about an event name which occurs on no path at all at this level is
// vacuous (an `all`, `first` or implication over it holds trivially): that is
// a hole in the contract, reported as a failed vacuity obligation. `none`,
// `only` and `nowhere` are exempt: absence is what they state.
func (e *Exec) eventVacuity(c *FuncContract) {
	if e.seenEvents["*"] {
		return
	}
	seen := map[string]bool{}
	var walk func(x *SExpr, exempt bool)
	walk = func(x *SExpr, exempt bool) {
		if x == nil {
			return
		}
		if x.Op == "call" && len(x.Args) > 0 && x.Args[0].Op == "id" {
			switch x.Args[0].Name {
			case "none", "only", "nowhere":
				return
			case "emitted", "count", "before", "first", "last_is", "all":
				for i, a := range x.Args[1:] {
					if x.Args[0].Name == "all" && i > 0 {
						walk(a, exempt)
						continue
					}
					if (a.Op == "id") || (a.Op == "call" && a.Args[0].Op == "id") {
						n := patName(a)
						if !e.seenEvents[n] && !seen[n] {
							seen[n] = true
							o := &Obligation{Name: fnKey(e.fn) + "/vacuity:event-occurs:" + n, Group: fnKey(e.fn) + "/vacuity:event-occurs:" + n, Kind: "vacuity", Func: fnKey(e.fn),
								Pos: "-", Status: "sat", Solver: "-", Text: "a clause of the contract speaks about event " + n + ", which occurs on no path of this function at its own level (callee-internal events are not visible): the clause is vacuous"}
							e.obls = append(e.obls, o)
						}
					}
				}
				return
			}
		}
		for _, a := range x.Args {
			walk(a, exempt)
		}
	}
	for _, cl := range c.Ensures {
		walk(cl.Expr, false)
	}
	for _, cl := range c.PanicEnsures {
		walk(cl.Expr, false)
	}
}

// shapeObligations: the `persisted` declarations, decided by the generator
// itself from go/types (no solver involved): every listed field exists, is
// exported, has a JSON key that is not "-", no two fields of the struct share
// a key (case-insensitively: encoding/json would then drop or confuse them),
// and the field's type is one encoding/json restores by reflection.
func (eng *Engine) shapeObligations(tag string) []*Obligation {
	var out []*Obligation
	for _, d := range eng.specs.Distinct {
		if tag != "" && !hasTag(d.Tags, tag) {
			continue
		}
		vals := map[string]string{}
		for _, n := range d.Names {
			vals[n] = ""
			for g, c := range eng.constGlobals {
				if g.Pkg != nil && g.Pkg.Pkg.Name()+"."+g.Name() == n && c.Value != nil {
					vals[n] = c.Value.ExactString()
				}
			}
			// declared as a constant instead: same thing
			if i := strings.Index(n, "."); i > 0 && vals[n] == "" {
				if sp := eng.spkgs[n[:i]]; sp != nil {
					if c, ok := sp.Pkg.Scope().Lookup(n[i+1:]).(*types.Const); ok {
						vals[n] = c.Val().ExactString()
					}
				}
			}
		}
		for i, a := range d.Names {
			name := "shape/distinct/" + a
			o := &Obligation{Name: name, Group: name, Kind: "shape", Func: "shape", Tags: d.Tags, Pos: "-", Solver: "go/ssa", Status: "unsat",
				Text: a + " is a constant-initialised variable whose value differs from " + strings.Join(append(append([]string{}, d.Names[:i]...), d.Names[i+1:]...), ", ")}
			if vals[a] == "" {
				o.Status, o.Text = "sat", o.Text+": it is not (or no longer) initialised once with a constant"
			}
			for j, b := range d.Names {
				if i != j && vals[a] != "" && vals[a] == vals[b] {
					o.Status, o.Text = "sat", o.Text+": it has the same value as "+b+" ("+vals[a]+")"
				}
			}
			out = append(out, o)
		}
	}
	for _, p := range eng.specs.Persisted {
		if tag != "" && !hasTag(p.Tags, tag) {
			continue
		}
		mk := func(field, problem string) {
			name := "shape/" + p.Type + "." + field
			o := &Obligation{Name: name, Group: name, Kind: "shape", Func: "shape", Tags: p.Tags, Pos: "-", Solver: "go/types",
				Text: "persisted field " + p.Type + "." + field + " makes the JSON round trip"}
			if problem == "" {
				o.Status = "unsat"
			} else {
				o.Status = "sat"
				o.Text += ": " + problem
			}
			out = append(out, o)
		}
		var st *types.Struct
		i := strings.LastIndex(p.Type, ".")
		if sp := eng.spkgs[p.Type[:i]]; sp != nil {
			if obj := sp.Pkg.Scope().Lookup(p.Type[i+1:]); obj != nil {
				st, _ = obj.Type().Underlying().(*types.Struct)
			}
		}
		if st == nil {
			mk("*", "no such struct type")
			continue
		}
		// the reflection-based codec is what the shape obligations describe: a
		// hand-written marshaller on the type replaces it wholesale
		if sp := eng.spkgs[p.Type[:i]]; sp != nil {
			if obj := sp.Pkg.Scope().Lookup(p.Type[i+1:]); obj != nil {
				ms := types.NewMethodSet(types.NewPointer(obj.Type()))
				problem := ""
				if ms.Lookup(sp.Pkg, "MarshalJSON") != nil {
					problem = "the type has its own MarshalJSON: the keys it writes are not the ones the struct tags (and UnmarshalJSON) read"
				}
				if ms.Lookup(sp.Pkg, "UnmarshalJSON") != nil && eng.specs.Funcs["(*"+p.Type+").UnmarshalJSON"] == nil {
					problem = "the type has its own UnmarshalJSON and no contract describes it"
				}
				mk("(codec)", problem)
			}
		}
		keys := map[string]int{}
		keyOf := func(f *types.Var, tag string) string {
			k := strings.Split(reflectTag(tag, "json"), ",")[0]
			if k == "" {
				k = f.Name()
			}
			return k
		}
		for j := 0; j < st.NumFields(); j++ {
			if f := st.Field(j); f.Exported() && reflectTag(st.Tag(j), "json") != "-" {
				keys[strings.ToLower(keyOf(f, st.Tag(j)))]++
			}
		}
		for _, fname := range p.Fields {
			problem := "no such field"
			for j := 0; j < st.NumFields(); j++ {
				f := st.Field(j)
				if f.Name() != fname {
					continue
				}
				problem = ""
				switch {
				case !f.Exported():
					problem = "the field is unexported, encoding/json skips it"
				case reflectTag(st.Tag(j), "json") == "-":
					problem = "the field is tagged json:\"-\""
				case keys[strings.ToLower(keyOf(f, st.Tag(j)))] > 1:
					problem = "another field of the struct uses the same JSON key"
				case strings.Contains(reflectTag(st.Tag(j), "json"), ",omitempty") || strings.Contains(reflectTag(st.Tag(j), "json"), ",omitzero") || strings.Contains(reflectTag(st.Tag(j), "json"), ",string"):
					// omitempty only drops zero values, which decode as zero: harmless; ",string" changes the wire form symmetrically
				case !jsonRoundTrips(f.Type(), 0):
					problem = "values of type " + f.Type().String() + " are not restored by encoding/json"
				}
			}
			mk(fname, problem)
		}
	}
	return out
}

// flagObligations: the `flags` declarations. Every call
// (*pflag.FlagSet).XxxVar(ptr, name, default, usage) in the named constructor
// is read off the SSA: ptr as a field path from the command object (or a
// package-level variable), default as a constant or as the call that computes
// it. A declared flag must be registered exactly once with the declared path
// (and default, when one is declared).
func (eng *Engine) flagObligations(tag string) []*Obligation {
	var out []*Obligation
	for _, fd := range eng.specs.Flags {
		if tag != "" && !hasTag(fd.Tags, tag) {
			continue
		}
		fn := eng.funcs[fd.Func]
		type reg struct{ path, def string }
		regs := map[string][]reg{}
		if fn != nil {
			for _, b := range fn.Blocks {
				for _, in := range b.Instrs {
					c, ok := in.(*ssa.Call)
					if !ok {
						continue
					}
					sc := c.Call.StaticCallee()
					if sc == nil || !strings.Contains(sc.String(), "pflag.FlagSet).") || !strings.HasSuffix(sc.Name(), "Var") || len(c.Call.Args) < 4 {
						continue
					}
					name := "?"
					if k, ok := c.Call.Args[2].(*ssa.Const); ok && k.Value != nil {
						name = strings.Trim(k.Value.ExactString(), "\"")
					}
					regs[name] = append(regs[name], reg{flagPath(c.Call.Args[1]), flagDefault(c.Call.Args[3])})
				}
			}
		}
		for _, b := range fd.Bindings {
			gname := "flags/" + fd.Func + "/--" + b.Name
			o := &Obligation{Name: gname, Group: gname, Kind: "shape", Func: "flags", Tags: fd.Tags, Pos: "-", Solver: "go/ssa", Status: "unsat",
				Text: "flag --" + b.Name + " of " + fd.Func + " is bound to " + b.Path}
			rs := regs[b.Name]
			switch {
			case fn == nil:
				o.Status, o.Text = "sat", o.Text+": no such function"
			case len(rs) == 0:
				o.Status, o.Text = "sat", o.Text+": the flag is not registered"
			case len(rs) > 1:
				o.Status, o.Text = "sat", o.Text+": the flag is registered more than once"
			case rs[0].path != b.Path:
				o.Status, o.Text = "sat", o.Text+": it is bound to "+rs[0].path
			case b.Default != "" && strings.ReplaceAll(rs[0].def, " ", "") != strings.ReplaceAll(b.Default, " ", ""):
				o.Status, o.Text = "sat", o.Text+" with default "+b.Default+": the default is "+rs[0].def
			}
			out = append(out, o)
		}
		// two flags bound to the same variable (one silently overrides the other)
		byPath := map[string][]string{}
		for n, rs := range regs {
			for _, r := range rs {
				byPath[r.path] = append(byPath[r.path], n)
			}
		}
		gname := "flags/" + fd.Func + "/distinct-variables"
		o := &Obligation{Name: gname, Group: gname, Kind: "shape", Func: "flags", Tags: fd.Tags, Pos: "-", Solver: "go/ssa", Status: "unsat", Text: "no two flags of " + fd.Func + " are bound to the same variable"}
		var dup []string
		for p, ns := range byPath {
			if len(ns) > 1 && p != "?" {
				sort.Strings(ns)
				dup = append(dup, p+" <- "+strings.Join(ns, ","))
			}
		}
		if len(dup) > 0 {
			sort.Strings(dup)
			o.Status, o.Text = "sat", o.Text+": "+strings.Join(dup, "; ")
		}
		out = append(out, o)
	}
	return out
}

// flagPath renders a pointer operand as a field path: FieldAddr chains rooted
// at a local object give "a.b.c", rooted at a package variable "pkg.var.a".
func flagPath(v ssa.Value) string {
	var parts []string
	for {
		switch x := v.(type) {
		case *ssa.FieldAddr:
			st := x.X.Type().Underlying().(*types.Pointer).Elem().Underlying().(*types.Struct)
			parts = append([]string{st.Field(x.Field).Name()}, parts...)
			v = x.X
			continue
		case *ssa.Global:
			return x.Pkg.Pkg.Name() + "." + x.Name() + "." + strings.Join(parts, ".")
		case *ssa.Alloc, *ssa.UnOp, *ssa.Parameter, *ssa.FreeVar:
			return strings.Join(parts, ".")
		}
		return "?"
	}
}

func flagDefault(v ssa.Value) string {
	switch x := v.(type) {
	case *ssa.Const:
		if x.Value == nil {
			return "nil"
		}
		return x.Value.ExactString()
	case *ssa.Call:
		if sc := x.Call.StaticCallee(); sc != nil {
			var as []string
			for _, a := range x.Call.Args {
				as = append(as, flagDefault(a))
			}
			return sc.Name() + "(" + strings.Join(as, ",") + ")"
		}
	case *ssa.Slice:
		return "[]"
	case *ssa.ChangeType:
		return flagDefault(x.X)
	case *ssa.Convert:
		return flagDefault(x.X)
	}
	return "?"
}

func reflectTag(tag, key string) string {
	v, _ := reflect.StructTag(tag).Lookup(key)
	return v
}

// jsonRoundTrips: types whose values encoding/json writes and reads back
// unchanged (float64 included: Go prints the shortest representation that
// parses back to the same value; NaN/Inf make Marshal fail, which the callers' contracts see as an error).
func jsonRoundTrips(t types.Type, depth int) bool {
	if depth > 6 {
		return false
	}
	switch u := t.Underlying().(type) {
	case *types.Basic:
		return u.Info()&(types.IsBoolean|types.IsInteger|types.IsString) != 0 || u.Kind() == types.Float64
	case *types.Slice:
		return jsonRoundTrips(u.Elem(), depth+1)
	case *types.Pointer:
		return jsonRoundTrips(u.Elem(), depth+1)
	case *types.Struct:
		return true // its own fields are the subject of their own `persisted` declaration
	case *types.Map:
		b, ok := u.Key().Underlying().(*types.Basic)
		return ok && b.Info()&types.IsString != 0 && jsonRoundTrips(u.Elem(), depth+1)
	}
	return false
}

func (eng *Engine) lemmaObligations(tag string) (*FuncResult, error) {
	res := &FuncResult{Key: "lemmas"}
	for _, l := range eng.specs.Lemmas {
		if l.Axiom {
			continue
		}
		if tag != "" {
			has := false
			for _, t := range l.Tags {
				if t == tag {
					has = true
				}
			}
			if !has {
				continue
			}
		}
		e := newExec(eng, nil)
		st := &State{heap: map[string]Term{}, fresh: map[string]bool{}, published: map[string]bool{}, facts: map[string]bool{}, arrVals: map[string]Value{}, freshSeq: map[string]int{}, foreignFresh: map[string]bool{}, roots: map[string]rootInfo{}, ownKeys: map[string]map[string]bool{}, defCache: map[string]string{}}
		st.allocTop = e.declare("top0", SInt)
		st.now = e.declare("now0", SInt)
		env := &SpecEnv{e: e, st: st, vars: map[string]Value{}, what: "lemma " + l.Name}
		if sp := eng.spkgs["server"]; sp != nil {
			env.pkg = sp.Pkg
		}
		for _, u := range l.Uses {
			e.assumeLemma(st, env, u)
		}
		t, err := env.evalBool(l.Expr)
		if err != nil {
			res.SpecErrors = append(res.SpecErrors, err.Error())
			continue
		}
		o := &Obligation{Name: "lemma/" + l.Name, Group: "lemma/" + l.Name, Kind: "lemma", Func: "lemma", Tags: l.Tags, Lines: st.script.lines(), Goal: t, Text: l.Text,
			Pos: fmt.Sprintf("%s:%d", l.File, l.Line)}
		o.Lines = append(e.declLines(o), o.Lines...)
		res.Obls = append(res.Obls, o)
		res.SpecErrors = append(res.SpecErrors, e.specErrors...)
		for k := range e.usedAssumed {
			res.Assumed = append(res.Assumed, k)
		}
	}
	return res, nil
}

// zeroSliceOffsets: slice-typed inputs (other than byte slices, which are
// routinely re-sliced) are taken to start at offset 0 of their backing array.
func zeroSliceOffsets(v *Value) {
	ls := flatten(v.T)
	for i, l := range ls {
		if strings.HasSuffix(l.Suffix, "#off") {
			if sl, ok := v.T.Underlying().(*types.Slice); ok && len(ls) == 3 {
				if b, ok := sl.Elem().Underlying().(*types.Basic); ok && b.Kind() == types.Uint8 {
					continue
				}
			}
			v.L[i] = Zero
		}
	}
}

var neutralEvents = map[string]bool{"Lock": true, "Unlock": true, "WgAdd": true, "WgDone": true, "WgWait": true, "Go": true, "Select": true, "TimeAfter": true, "Recv": true}

// traceFrame: every event produced on this path is one the contract declares
// (emits / may_emit), so callers can rely on "none(E)" for undeclared events.
func (e *Exec) traceFrame(st *State, c *FuncContract, pos token.Pos) {
	allowed := map[string]bool{}
	for _, n := range c.MayEmit {
		allowed[n] = true
	}
	if allowed["*"] {
		return
	}
	for _, em := range c.Emits {
		allowed[em.Name] = true
	}
	bad := map[string]bool{}
	for _, ev := range st.trace {
		if ev.MayLoop != nil {
			for _, n := range ev.MayLoop {
				if !allowed[n] && !neutralEvents[n] {
					bad[n] = true
				}
			}
			continue
		}
		if !allowed[ev.Name] && !neutralEvents[ev.Name] {
			bad[ev.Name] = true
		}
	}
	if len(bad) > 0 {
		e.oblige(st, "trace-frame", strings.Join(sortedKeys(bad), ","), False, pos, nil, "events not declared by may_emit/emits: "+strings.Join(sortedKeys(bad), ", "))
	}
}
