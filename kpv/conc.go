package main

import (
	"fmt"
	"go/token"
	"go/types"
	"sort"
	"strings"

	"golang.org/x/tools/go/ssa"
)

// ---------------------------------------------------------------------------
// Intrinsics: library functions the engine models itself. Every one used is
// reported in evidence under "modelled".
// ---------------------------------------------------------------------------

func (e *Exec) intrinsic(st *State, fr *Frame, ci *callInfo) (Value, bool, bool) {
	k := ci.key
	a := ci.args
	t1 := func(i int) Term { return a[i].L[0] }
	used := func() { e.modelled[k] = true }
	switch k {
	case "strings.HasPrefix":
		used()
		return scalar(tBool, App(SBool, "str.prefixof", t1(1), t1(0))), true, false
	case "strings.HasSuffix":
		used()
		return scalar(tBool, App(SBool, "str.suffixof", t1(1), t1(0))), true, false
	case "strings.Contains":
		used()
		return scalar(tBool, App(SBool, "str.contains", t1(0), t1(1))), true, false
	case "strings.Index":
		used()
		return scalar(tInt, App(SInt, "str.indexof", t1(0), t1(1), Zero)), true, false
	case "strings.Join":
		used()
		arr := e.cur(st, "elem:string", SStr, true)
		e.declareFun("sf.strJoin", []Sort{ArrS(SInt, SStr), SInt, SInt, SStr}, SStr)
		return scalar(tString, App(SStr, "sf.strJoin", Select(arr, sliceBase(a[0])), sliceOff(a[0]), sliceLen(a[0]), t1(1))), true, false
	case "strings.TrimPrefix":
		used()
		s, p := t1(0), t1(1)
		return scalar(tString, Ite(App(SBool, "str.prefixof", p, s), App(SStr, "str.substr", s, App(SInt, "str.len", p), Sub(App(SInt, "str.len", s), App(SInt, "str.len", p))), s)), true, false
	case "strings.CutPrefix":
		// (after, found): the same string TrimPrefix returns, and whether the prefix was there
		used()
		s, p := t1(0), t1(1)
		has := App(SBool, "str.prefixof", p, s)
		after := Ite(has, App(SStr, "str.substr", s, App(SInt, "str.len", p), Sub(App(SInt, "str.len", s), App(SInt, "str.len", p))), s)
		return Value{T: ci.sig.Results(), Tup: []Value{scalar(tString, after), scalar(tBool, has)}}, true, false
	case "strings.CutSuffix":
		used()
		s, p := t1(0), t1(1)
		has := App(SBool, "str.suffixof", p, s)
		before := Ite(has, App(SStr, "str.substr", s, Zero, Sub(App(SInt, "str.len", s), App(SInt, "str.len", p))), s)
		return Value{T: ci.sig.Results(), Tup: []Value{scalar(tString, before), scalar(tBool, has)}}, true, false
	case "strings.Cut":
		// (before, after, found) around the first occurrence of sep
		used()
		s, sep := t1(0), t1(1)
		i := e.define(st, "cut.idx", App(SInt, "str.indexof", s, sep, Zero))
		found := Ge(i, Zero)
		before := Ite(found, App(SStr, "str.substr", s, Zero, i), s)
		rest := Add(i, App(SInt, "str.len", sep))
		after := Ite(found, App(SStr, "str.substr", s, rest, Sub(App(SInt, "str.len", s), rest)), StrLit(""))
		return Value{T: ci.sig.Results(), Tup: []Value{scalar(tString, before), scalar(tString, after), scalar(tBool, found)}}, true, false
	case "strings.TrimSuffix":
		used()
		s, p := t1(0), t1(1)
		return scalar(tString, Ite(App(SBool, "str.suffixof", p, s), App(SStr, "str.substr", s, Zero, Sub(App(SInt, "str.len", s), App(SInt, "str.len", p))), s)), true, false
	case "strings.Trim":
		// only Trim(s, "/") style single-character cutsets are modelled:
		// result r is the substring of s between the first and last non-cut byte
		if t1(1).S == `"/"` {
			used()
			s := t1(0)
			r := e.freshConst("trim", SStr)
			i := e.freshConst("trim.i", SInt)
			st.assert(And(Le(Zero, i), Le(Add(i, App(SInt, "str.len", r)), App(SInt, "str.len", s))))
			st.assert(Eq(r, App(SStr, "str.substr", s, i, App(SInt, "str.len", r))))
			st.assert(Not(App(SBool, "str.prefixof", t1(1), r)))
			st.assert(Not(App(SBool, "str.suffixof", t1(1), r)))
			// everything cut off consists of the cut character only: expressed
			// through the regular language (/)* on both removed parts
			pre := App(SStr, "str.substr", s, Zero, i)
			suf := App(SStr, "str.substr", s, Add(i, App(SInt, "str.len", r)), App(SInt, "str.len", s))
			re := "(re.* (str.to_re \"/\"))"
			st.assert(Term{"(str.in_re " + pre.S + " " + re + ")", SBool})
			st.assert(Term{"(str.in_re " + suf.S + " " + re + ")", SBool})
			return scalar(tString, r), true, false
		}
	case "(*sync.Mutex).Lock", "(*sync.RWMutex).Lock":
		used()
		e.lockAcquire(st, a[0], true, ci.pos)
		return Value{}, true, false
	case "(*sync.RWMutex).RLock":
		used()
		e.lockAcquire(st, a[0], false, ci.pos)
		return Value{}, true, false
	case "(*sync.Mutex).Unlock", "(*sync.RWMutex).Unlock":
		used()
		e.lockRelease(st, a[0], true, ci.pos)
		return Value{}, true, false
	case "(*sync.RWMutex).RUnlock":
		used()
		e.lockRelease(st, a[0], false, ci.pos)
		return Value{}, true, false
	case "errors.Is":
		used()
		// deterministic uninterpreted relation on error values; reflexive; nil is nothing
		e.declareFun("sf.errIs", []Sort{SInt, SInt, SInt, SInt}, SBool)
		r := e.define(st, "errIs", App(SBool, "sf.errIs", a[0].L[0], a[0].L[1], a[1].L[0], a[1].L[1]))
		st.assert(Implies(And(Eq(a[0].L[0], a[1].L[0]), Eq(a[0].L[1], a[1].L[1]), Neq(a[0].L[0], Zero)), r))
		st.assert(Implies(Eq(a[0].L[0], Zero), Not(r)))
		return scalar(tBool, r), true, false
	case "errors.As":
		used()
		// target is *T: result depends on the error value and T only
		tid := e.eng.typeID(a[1].Dyn)
		if a[1].Dyn == nil {
			tid = 0
		}
		e.declareFun("sf.errAs", []Sort{SInt, SInt, SInt}, SBool)
		r := e.define(st, "errAs", App(SBool, "sf.errAs", a[0].L[0], a[0].L[1], IntLit(int64(tid))))
		st.assert(Implies(Eq(a[0].L[0], Zero), Not(r)))
		// on success the target is assigned something non-nil of that type
		if a[1].DynV != nil && a[1].DynV.P != nil {
			p := a[1].DynV.P
			nv := e.freshValue(st, p.Typ, "errAs.target")
			// the value found is a function of the error and the target type
			e.declareFun("sf.errAsT", []Sort{SInt, SInt, SInt}, SInt)
			e.declareFun("sf.errAsV", []Sort{SInt, SInt, SInt}, SInt)
			if isIface(p.Typ) {
				st.assert(Eq(nv.L[0], App(SInt, "sf.errAsT", a[0].L[0], a[0].L[1], IntLit(int64(tid)))))
				st.assert(Eq(nv.L[1], App(SInt, "sf.errAsV", a[0].L[0], a[0].L[1], IntLit(int64(tid)))))
			} else if len(nv.L) == 1 {
				st.assert(Eq(nv.L[0], App(SInt, "sf.errAsV", a[0].L[0], a[0].L[1], IntLit(int64(tid)))))
			}
			old := e.loadPlace(st, p, nil)
			sel := Value{T: p.Typ, L: make([]Term, len(nv.L))}
			for i := range nv.L {
				sel.L[i] = Ite(r, nv.L[i], old.L[i])
			}
			if isIface(p.Typ) {
				st.assert(Implies(r, Neq(nv.L[0], Zero)))
			} else if len(nv.L) == 1 {
				st.assert(Implies(r, Neq(nv.L[0], Zero)))
			}
			e.storePlace(st, p, sel)
		}
		return scalar(tBool, r), true, false
	case "(*sync.WaitGroup).Add":
		used()
		e.emit(st, Event{Name: "WgAdd", Args: []Term{a[0].L[0], t1(1)}, Pos: ci.pos})
		return Value{}, true, false
	case "(*sync.WaitGroup).Done":
		used()
		e.emit(st, Event{Name: "WgDone", Args: []Term{a[0].L[0]}, Pos: ci.pos})
		return Value{}, true, false
	case "(*sync.WaitGroup).Wait":
		used()
		e.blockingPoint(st, ci.pos, "WaitGroup.Wait")
		e.joinSpawned(st, fr, a[0], ci.pos)
		return Value{}, true, false
	case "(*sync/atomic.Bool).Store":
		used()
		e.storeGhost(st, "atomicBool", SBool, a[0].L[0], t1(1))
		return Value{}, true, false
	case "(*sync/atomic.Bool).Load":
		used()
		return scalar(tBool, e.loadGhost(st, "atomicBool", SBool, a[0].L[0])), true, false
	case "encoding/json.Unmarshal":
		// reflection-driven; modelled for a pointer-to-struct target whose type is
		// statically known: every field of the target may be set to any decoded
		// value (nested objects are freshly allocated); nothing else is written;
		// nested values with their own UnmarshalJSON satisfy its postconditions.
		tv := a[1]
		if tv.Dyn == nil || tv.DynV == nil {
			break
		}
		pt, ok := tv.Dyn.Underlying().(*types.Pointer)
		if !ok {
			break
		}
		stt, ok := pt.Elem().Underlying().(*types.Struct)
		if !ok || !transparentStruct(pt.Elem()) {
			break
		}
		used()
		target := *tv.DynV
		p := target.P
		if p == nil {
			p = &Place{Kind: PObj, Base: target.L[0], Typ: pt.Elem()}
		}
		before := st.allocTop
		nt := e.freshConst("top.json", SInt)
		st.assert(Ge(nt, st.allocTop))
		st.allocTop = nt
		nv := e.freshValue(st, pt.Elem(), "json."+typeKey(pt.Elem()))
		for i, l := range flatten(pt.Elem()) {
			if l.Kind == KRef {
				st.assert(Or(Eq(nv.L[i], Zero), Gt(nv.L[i], before)))
			}
		}
		zeroSliceOffsets(&nv)
		e.storePlace(st, p, nv)
		e.emit(st, Event{Name: "JsonUnmarshal", Args: []Term{target.L[0]}, Pos: ci.pos})
		res := e.freshValue(st, ci.sig.Results().At(0).Type(), "json.err")
		// nested UnmarshalJSON postconditions
		for i := 0; i < stt.NumFields(); i++ {
			ft := stt.Field(i).Type()
			fpt, ok := ft.Underlying().(*types.Pointer)
			if !ok {
				continue
			}
			c := e.eng.specs.Funcs["(*"+typeKey(fpt.Elem())+").UnmarshalJSON"]
			if c == nil {
				continue
			}
			fv := fieldOf(nv, i)
			env := &SpecEnv{e: e, st: st, vars: map[string]Value{}, pkg: e.pkgOfFrame(fr), what: "nested " + c.Key}
			if fn := e.eng.funcs[c.Key]; fn != nil && len(fn.Params) > 0 {
				env.vars[fn.Params[0].Name()] = fv
			}
			env.vars["err"] = zeroValue(types.Universe.Lookup("error").Type())
			for _, en := range c.Ensures {
				if mentionsTrace(en.Expr) {
					continue
				}
				if t, err := env.evalBool(en.Expr); err == nil {
					st.assert(Implies(And(Neq(fv.L[0], Zero), Eq(res.L[0], Zero)), t))
				}
			}
			e.usedContracts[c.Key] = true
		}
		return res, true, false
	case "(*encoding/json.Decoder).Decode":
		// modelled for a target of type *[]*T where T is a repository struct
		// with its own UnmarshalJSON: the slice variable receives a freshly
		// allocated slice of fresh, pairwise distinct, non-nil *T. When Decode
		// reports success every element satisfies (a) the postconditions of
		// (*T).UnmarshalJSON that speak about the receiver only and (b) the
		// `type_invariant T:` clauses of the spec, which are ASSUMPTIONS about
		// the bytes being decoded (listed in evidence). Nothing else is written.
		tv := a[1]
		if tv.Dyn == nil || tv.DynV == nil {
			break
		}
		pt, ok := tv.Dyn.Underlying().(*types.Pointer)
		if !ok {
			break
		}
		slt, ok := pt.Elem().Underlying().(*types.Slice)
		if !ok {
			break
		}
		ept, ok := slt.Elem().Underlying().(*types.Pointer)
		if !ok || !transparentStruct(ept.Elem()) {
			break
		}
		uc := e.eng.specs.Funcs["(*"+typeKey(ept.Elem())+").UnmarshalJSON"]
		if uc == nil {
			break
		}
		used()
		target := *tv.DynV
		p := target.P
		if p == nil {
			p = &Place{Kind: PObj, Base: target.L[0], Typ: pt.Elem()}
		}
		before := st.allocTop
		nt := e.freshConst("top.json", SInt)
		st.assert(Ge(nt, st.allocTop))
		st.allocTop = nt
		base := e.freshConst("json.slice", SInt)
		n := e.freshConst("json.len", SInt)
		st.assert(And(Gt(base, before), Le(base, nt), Le(Zero, n), Le(n, Term{"140737488355328", SInt})))
		e.storePlace(st, p, mkSlice(pt.Elem(), base, Zero, n))
		e.emit(st, Event{Name: "JsonDecode", Args: []Term{a[0].L[0]}, Pos: ci.pos})
		res := e.freshValue(st, ci.sig.Results().At(0).Type(), "json.err")
		okT := Eq(res.L[0], Zero)
		arr := e.cur(st, "elem:"+typeKey(slt.Elem()), SInt, true)
		q := e.freshName("q.dec")
		q2 := e.freshName("q.dec2")
		el := func(i string) Term { return Select(Select(arr, base), Term{i, SInt}) }
		rng := func(i string) Term { return And(Le(Zero, Term{i, SInt}), Lt(Term{i, SInt}, n)) }
		st.assert(Term{fmt.Sprintf("(forall ((%s Int)) (! (=> %s (and (> %s %s) (<= %s %s))) :pattern (%s)))", q, rng(q).S, el(q).S, before.S, el(q).S, nt.S, el(q).S), SBool})
		st.assert(Term{fmt.Sprintf("(forall ((%s Int) (%s Int)) (! (=> (and %s %s (not (= %s %s))) (not (= %s %s))) :pattern (%s %s)))", q, q2, rng(q).S, rng(q2).S, q, q2, el(q).S, el(q2).S, el(q).S, el(q2).S), SBool})
		fv := Value{T: slt.Elem(), L: []Term{el(q)}}
		env := &SpecEnv{e: e, st: st, vars: map[string]Value{}, pkg: e.pkgOfFrame(fr), what: "decoded " + uc.Key, oldTop: before, oldNow: st.now}
		if fn := e.eng.funcs[uc.Key]; fn != nil && len(fn.Params) > 0 {
			env.vars[fn.Params[0].Name()] = fv
		}
		env.vars["self"] = fv
		env.vars["err"] = zeroValue(types.Universe.Lookup("error").Type())
		var facts []Term
		for _, en := range uc.Ensures {
			if mentionsTrace(en.Expr) {
				continue
			}
			if t, err := env.evalBool(en.Expr); err == nil {
				facts = append(facts, t)
			}
		}
		for _, cl := range e.eng.specs.TypeInv[typeKey(ept.Elem())] {
			if t, err := env.evalBool(cl.Expr); err == nil {
				facts = append(facts, t)
				e.usedAssumed["assumption about decoded "+typeKey(ept.Elem())+" values ("+cl.Name+"): "+cl.Text] = true
			}
		}
		if len(facts) > 0 {
			st.assert(Term{fmt.Sprintf("(=> %s (forall ((%s Int)) (! (=> %s %s) :pattern (%s))))", okT.S, q, rng(q).S, And(facts...).S, el(q).S), SBool})
		}
		e.usedContracts[uc.Key] = true
		return res, true, false
	case "fmt.Sprintf", "fmt.Errorf":
		// deterministic: the result is an uninterpreted function of the format
		// and of the (unboxed) arguments when they are statically known
		vals, ok := e.variadicArgs(st, a[1])
		if !ok || !isLit(t1(0)) {
			break
		}
		used()
		var leaves []Term
		var sorts []Sort
		for _, v := range vals {
			for _, l := range v.L {
				leaves = append(leaves, l)
				sorts = append(sorts, l.Sort)
			}
		}
		fname := e.sprintfName(t1(0).S, sorts)
		if k == "fmt.Sprintf" {
			e.declareFun(fname, sorts, SStr)
			return scalar(tString, e.define(st, "sprintf", App(SStr, fname, leaves...))), true, false
		}
		// Errorf: a fresh non-nil error; %w operands are found by errors.Is
		res := e.freshValue(st, ci.sig.Results().At(0).Type(), "errorf")
		st.assert(Neq(res.L[0], Zero))
		st.assert(Gt(res.L[1], e.prevTop(st)))
		if strings.Contains(t1(0).S, "%w") {
			e.declareFun("sf.errIs", []Sort{SInt, SInt, SInt, SInt}, SBool)
			for _, v := range vals {
				if v.T != nil && isIface(v.T) && isErrorLike(v) {
					st.assert(App(SBool, "sf.errIs", res.L[0], res.L[1], v.L[0], v.L[1]))
				}
			}
		}
		return res, true, false
	case "(*net/http.Request).Context":
		used()
		p := e.reqCtxPlace(a[0])
		v := e.loadPlace(st, p, nil)
		e.assumeLoaded(st, v)
		st.assert(Neq(v.L[0], Zero)) // Context() never returns nil
		v.T = ci.sig.Results().At(0).Type()
		return v, true, false
	case "(*net/http.Request).WithContext":
		used()
		r2 := e.alloc(st, "req")
		rt := a[0].T.Underlying().(*types.Pointer).Elem()
		e.copyFields(st, rt, r2, a[0].L[0])
		e.storePlace(st, e.reqCtxPlace(Value{T: a[0].T, L: []Term{r2}}), a[1])
		e.storeGhost(st, "reqOrigin", SInt, r2, e.reqOrigin(st, a[0].L[0]))
		return Value{T: a[0].T, L: []Term{r2}}, true, false
	case "context.WithValue":
		used()
		e.publish(st, a[2])
		c := e.alloc(st, "ctx")
		k, ok := e.ctxKey(st, a[1])
		parent := a[0].L[1]
		vt := e.cur(st, "ghost:ctx$valT", ArrS(SStr, SInt), false)
		vv := e.cur(st, "ghost:ctx$valV", ArrS(SStr, SInt), false)
		if ok {
			e.setHeap(st, "ghost:ctx$valT", Store(vt, c, Store(Select(vt, parent), k, a[2].L[0])))
			e.setHeap(st, "ghost:ctx$valV", Store(vv, c, Store(Select(vv, parent), k, a[2].L[1])))
		} else {
			e.note(st, "context key of non-string kind: values of the derived context unknown")
		}
		e.storeGhost(st, "ctxParent", SInt, c, parent)
		return Value{T: ci.sig.Results().At(0).Type(), L: []Term{IntLit(int64(e.eng.typeID(ctxValueType()))), c}}, true, false
	case "context.WithCancelCause", "context.WithCancel", "context.WithTimeout":
		used()
		// derived context: inherits the parent's values; its own Done channel;
		// the returned function cancels it
		c := e.alloc(st, "ctx")
		parent := a[0].L[1]
		vt := e.cur(st, "ghost:ctx$valT", ArrS(SStr, SInt), false)
		vv := e.cur(st, "ghost:ctx$valV", ArrS(SStr, SInt), false)
		e.setHeap(st, "ghost:ctx$valT", Store(vt, c, Select(vt, parent)))
		e.setHeap(st, "ghost:ctx$valV", Store(vv, c, Select(vv, parent)))
		e.storeGhost(st, "ctxParent", SInt, c, parent)
		done := e.alloc(st, "donech")
		e.storeGhost(st, "ctxDone", SInt, c, done)
		cf := e.alloc(st, "cancelfn")
		e.storeGhost(st, "cancelCtx", SInt, cf, c)
		if k == "context.WithTimeout" {
			d := a[1].L[0]
			e.storeGhost(st, "ctxDeadline", SInt, c, Add(st.now, Ite(Ge(d, Zero), d, Zero)))
		}
		tup := ci.sig.Results()
		ctxv := Value{T: tup.At(0).Type(), L: []Term{IntLit(int64(e.eng.typeID(ctxValueType()))), c}}
		return Value{Tup: []Value{ctxv, {T: tup.At(1).Type(), L: []Term{cf}}}}, true, false
	case "context.Background", "context.TODO":
		used()
		bg := e.declare("ctx.background", SInt)
		st.assert(And(Lt(Zero, bg), Le(bg, e.top.entryTop)))
		return Value{T: ci.sig.Results().At(0).Type(), L: []Term{IntLit(int64(e.eng.typeID(ctxValueType()))), bg}}, true, false
	case "iface context.Context.Done":
		used()
		ch := e.loadGhost(st, "ctxDone", SInt, a[0].L[1])
		return Value{T: ci.sig.Results().At(0).Type(), L: []Term{e.define(st, "done", ch)}}, true, false
	case "iface context.Context.Value":
		used()
		k, ok := e.ctxKey(st, a[1])
		if !ok {
			return e.freshValue(st, ci.sig.Results().At(0).Type(), "ctxval"), true, false
		}
		vt := e.cur(st, "ghost:ctx$valT", ArrS(SStr, SInt), false)
		vv := e.cur(st, "ghost:ctx$valV", ArrS(SStr, SInt), false)
		res := Value{T: ci.sig.Results().At(0).Type(), L: []Term{e.define(st, "ctxvalT", Select(Select(vt, a[0].L[1]), k)), e.define(st, "ctxvalV", Select(Select(vv, a[0].L[1]), k))}}
		e.assumeLoaded(st, res)
		return res, true, false
	case "time.After":
		used()
		ch := e.alloc(st, "timer")
		d := t1(0)
		e.storeGhost(st, "fireAt", SInt, ch, Add(st.now, Ite(Ge(d, Zero), d, Zero)))
		e.emit(st, Event{Name: "TimeAfter", Args: []Term{ch, d}, Pos: ci.pos})
		return Value{T: ci.sig.Results().At(0).Type(), L: []Term{ch}}, true, false
	}
	return Value{}, false, false
}

func isErrorLike(v Value) bool {
	return v.T != nil && (isErrorType(v.T) || (v.Dyn != nil && types.Implements(v.Dyn, types.Universe.Lookup("error").Type().Underlying().(*types.Interface))) || isIface(v.T))
}

func (e *Exec) prevTop(st *State) Term { return Zero }

var sprintfNames = map[string]string{}

func (e *Exec) sprintfName(format string, sorts []Sort) string {
	k := format
	for _, s := range sorts {
		k += "|" + string(s)
	}
	if n, ok := sprintfNames[k]; ok {
		return n
	}
	n := fmt.Sprintf("sf.sprintf.%d", len(sprintfNames)+1)
	sprintfNames[k] = n
	return n
}

// variadicArgs recovers the statically known elements of a []any built at the call site.
func (e *Exec) variadicArgs(st *State, s Value) ([]Value, bool) {
	if !isSlice(s.T) || !isLit(sliceLen(s)) || !isLit(sliceOff(s)) {
		return nil, false
	}
	var n, off int
	fmt.Sscanf(sliceLen(s).S, "%d", &n)
	fmt.Sscanf(sliceOff(s).S, "%d", &off)
	var out []Value
	for i := 0; i < n; i++ {
		v, ok := st.arrVals[fmt.Sprintf("%s|%d", sliceBase(s).S, off+i)]
		if !ok {
			return nil, false
		}
		if v.DynV != nil {
			out = append(out, *v.DynV)
		} else {
			out = append(out, v)
		}
	}
	return out, true
}

var ctxValT types.Type

func ctxValueType() types.Type {
	if ctxValT == nil {
		ctxValT = types.NewPointer(types.NewNamed(types.NewTypeName(0, nil, "context.valueCtx", nil), types.NewStruct(nil, nil), nil))
	}
	return ctxValT
}

func (e *Exec) reqCtxPlace(r Value) *Place {
	rt := r.T.Underlying().(*types.Pointer).Elem()
	st := rt.Underlying().(*types.Struct)
	for i := 0; i < st.NumFields(); i++ {
		if st.Field(i).Name() == "ctx" {
			return &Place{Kind: PField, Base: r.L[0], Root: rt, Path: ".ctx", Typ: st.Field(i).Type()}
		}
	}
	panic("http.Request has no ctx field")
}

// reqOrigin: the request object a (possibly re-contexted) request derives from.
func (e *Exec) reqOrigin(st *State, r Term) Term {
	o := e.loadGhost(st, "reqOrigin", SInt, r)
	return Ite(Eq(o, Zero), r, o)
}

// ctxKey: context keys of string kind are identified by their type and text.
func (e *Exec) ctxKey(st *State, key Value) (Term, bool) {
	if key.Dyn == nil || !isString(key.Dyn) {
		return Term{}, false
	}
	s := e.unbox(st, key, key.Dyn)
	return App(SStr, "str.++", StrLit(typeKey(key.Dyn)+":"), s.L[0]), true
}

// copyFields copies every field of struct type t that the repository ever
// accesses from object src to object dst (shallow struct copy), plus ghost fields.
func (e *Exec) copyFields(st *State, t types.Type, dst, src Term) {
	tk := typeKey(t)
	for _, f := range e.eng.accessed[tk] {
		for _, l := range flatten(f.Type()) {
			key := tk + "." + f.Name() + l.Suffix
			arr := e.cur(st, key, l.Sort, false)
			e.setHeap(st, key, Store(arr, dst, Select(arr, src)))
		}
	}
	for _, g := range e.eng.specs.Ghosts {
		if g.IsField && g.Owner == tk {
			key := tk + "$" + g.Name
			sort := sortOfSpecType((&SpecEnv{e: e}).specType(g.Result))
			arr := e.cur(st, key, sort, false)
			e.setHeap(st, key, Store(arr, dst, Select(arr, src)))
		}
	}
}

// ---------------------------------------------------------------------------
// Locks
// ---------------------------------------------------------------------------

func lockSig(st *State) string {
	var ids []string
	for _, l := range st.locks {
		ids = append(ids, fmt.Sprintf("%s/%v", l.ID, l.Write))
	}
	sort.Strings(ids)
	return strings.Join(ids, ";")
}

func (e *Exec) lockIdent(v Value) (id, key string, obj Term, ok bool) {
	if v.P == nil {
		return "", "", Term{}, false
	}
	prefix, _ := placePrefix(v.P)
	return v.P.String(), prefix, v.P.Base, true
}

func (e *Exec) lockRankOf(key string) int {
	for i, k := range e.eng.specs.LockRank {
		if k == key {
			return i
		}
	}
	return -1
}

func (e *Exec) lockAcquire(st *State, v Value, write bool, pos token.Pos) {
	id, key, obj, ok := e.lockIdent(v)
	if !ok {
		e.note(st, "lock with unknown identity")
		return
	}
	what := e.eng.srcText(pos)
	for _, h := range st.locks {
		if h.ID == id {
			e.oblige(st, "lock", "reentry:"+what, False, pos, []string{"C18"}, "lock "+key+" acquired while already held (Go mutexes are not re-entrant)")
		}
		if h.Key == key && h.ID != id {
			// two objects' locks of the same class: order undefined
			e.oblige(st, "lock", "same-class:"+what, False, pos, []string{"C18"}, "two locks of class "+key+" held together")
		}
		r1, r2 := e.lockRankOf(h.Key), e.lockRankOf(key)
		if r1 >= 0 && r2 >= 0 && r1 >= r2 && h.Key != key {
			e.oblige(st, "lock", "rank:"+what, False, pos, []string{"C18"}, fmt.Sprintf("lock order: %s acquired while holding %s", key, h.Key))
		}
		if r2 < 0 || r1 < 0 {
			if len(e.eng.specs.LockRank) > 0 {
				e.oblige(st, "lock", "unranked:"+what, False, pos, []string{"C18"}, fmt.Sprintf("lock %s or %s has no declared rank", key, h.Key))
			}
		}
	}
	st.locks = append(st.locks, LockHeld{ID: id, Key: key, Obj: obj, Write: write})
	e.emit(st, Event{Name: "Lock", Args: []Term{obj, IntLit(int64(e.pathID(key)))}, Pos: pos})
	e.onAcquire(st, key, obj, v)
}

func (e *Exec) lockRelease(st *State, v Value, write bool, pos token.Pos) {
	id, key, obj, ok := e.lockIdent(v)
	if !ok {
		return
	}
	what := e.eng.srcText(pos)
	for i := len(st.locks) - 1; i >= 0; i-- {
		if st.locks[i].ID == id && st.locks[i].Write == write {
			e.onRelease(st, key, obj, v, pos)
			st.locks = append(st.locks[:i:i], st.locks[i+1:]...)
			e.emit(st, Event{Name: "Unlock", Args: []Term{obj, IntLit(int64(e.pathID(key)))}, Pos: pos})
			return
		}
	}
	if e.heldByContract(st, key, obj) {
		return
	}
	e.oblige(st, "lock", "unlock-unheld:"+what, False, pos, []string{"C18"}, "unlock of "+key+" which is not held")
}

func (e *Exec) heldByContract(st *State, key string, obj Term) bool { return false }

// lockHeldSpec answers held(x.lock) in specs: syntactic membership.
func (e *Exec) lockHeldSpec(st *State, v Value, write bool) bool {
	id, _, _, ok := e.lockIdent(v)
	if !ok {
		return false
	}
	for _, h := range st.locks {
		if h.ID == id && (h.Write || !write) {
			return true
		}
	}
	return false
}

// guardFor returns the lock class guarding a heap key, if declared.
func (e *Exec) guardFor(key string) *GuardDecl {
	for _, g := range e.eng.specs.Guards {
		for _, f := range g.Fields {
			if key == f || strings.HasPrefix(key, f+".") || strings.HasPrefix(key, f+"#") {
				return g
			}
		}
	}
	return nil
}

// lockCheckAccess: a load/store of a guarded field needs its guard held.
func (e *Exec) lockCheckAccess(st *State, p *Place, write bool, pos token.Pos) {
	if !e.checkLocks || e.disc != nil || p.Kind != PField {
		return
	}
	prefix, _ := placePrefix(p)
	g := e.guardFor(prefix)
	if g == nil {
		return
	}
	// unpublished objects (allocated on this path) are exempt
	if st.fresh[p.Base.S] && !st.published[p.Base.S] {
		return
	}
	if e.top != nil && e.top.contract != nil && e.top.contract.Attrs["unpublished"] != "" {
		// receiver declared unpublished (e.g. UnmarshalJSON builds the object)
		if v, ok := e.top.params[e.top.contract.Attrs["unpublished"]]; ok && v.L[0].S == p.Base.S {
			return
		}
	}
	for _, h := range st.locks {
		if h.Key == g.Lock && h.Obj.S == p.Base.S && (h.Write || !write) {
			return
		}
	}
	acc := "read"
	if write {
		acc = "write"
	}
	what := e.eng.srcText(pos)
	e.oblige(st, "lockset", fmt.Sprintf("%s:%s:%s", acc, prefix, what), False, pos, []string{"C18"},
		fmt.Sprintf("%s of %s without holding %s", acc, prefix, g.Lock))
}

func (e *Exec) onAcquire(st *State, key string, obj Term, v Value) {
	invs := e.eng.specs.LockInv[key]
	if len(invs) == 0 {
		return
	}
	env := e.lockInvEnv(st, key, obj)
	for _, cl := range invs {
		t, err := env.evalBool(cl.Expr)
		if err != nil {
			e.specErr(err)
			continue
		}
		st.assert(t)
	}
}

// havocContents forgets the contents of the map or slice stored in field
// `field` (a heap-key prefix "pkg.T.f") of object obj.
func (e *Exec) havocContents(st *State, field string, obj Term) {
	dot := strings.LastIndex(field, ".")
	tname, fname := field[:dot], field[dot+1:]
	env := &SpecEnv{e: e, st: st, vars: map[string]Value{}}
	i := strings.Index(tname, ".")
	sp := e.eng.spkgs[tname[:i]]
	if sp == nil {
		return
	}
	o := sp.Pkg.Scope().Lookup(tname[i+1:])
	if o == nil {
		return
	}
	self := Value{T: types.NewPointer(o.Type()), L: []Term{obj}}
	fv := env.selectField(self, fname)
	switch u := fv.T.Underlying().(type) {
	case *types.Map:
		dk, ks, ok := mapKeys(u)
		if !ok {
			return
		}
		dom := e.mapArr(st, dk, ArrS(SInt, ArrS(ks, SBool)), nil)
		e.setHeap(st, dk, Store(dom, fv.L[0], e.freshConst("acq.dom", ArrS(ks, SBool))))
		for _, l := range flatten(u.Elem()) {
			vk := "mapval:" + typeKey(u) + l.Suffix
			arr := e.mapArr(st, vk, ArrS(SInt, ArrS(ks, l.Sort)), nil)
			e.setHeap(st, vk, Store(arr, fv.L[0], e.freshConst("acq.val", ArrS(ks, l.Sort))))
		}
	case *types.Slice:
		for _, l := range flatten(u.Elem()) {
			e.havocAt(st, "elem:"+typeKey(u.Elem())+l.Suffix, l.Sort, true, sliceBase(fv))
		}
	}
}

func (e *Exec) lockInvEnv(st *State, key string, obj Term) *SpecEnv {
	// key is typeKey.field; "self" is the owning object
	dot := strings.LastIndex(key, ".")
	tname := key[:dot]
	env := &SpecEnv{e: e, st: st, vars: map[string]Value{}, trace: st.trace, what: "lock invariant " + key}
	if i := strings.Index(tname, "."); i >= 0 {
		if sp := e.eng.spkgs[tname[:i]]; sp != nil {
			env.pkg = sp.Pkg
			if o := sp.Pkg.Scope().Lookup(tname[i+1:]); o != nil {
				env.vars["self"] = Value{T: types.NewPointer(o.Type()), L: []Term{obj}}
			}
		}
	}
	return env
}

func (e *Exec) onRelease(st *State, key string, obj Term, v Value, pos token.Pos) {
	invs := e.eng.specs.LockInv[key]
	if len(invs) == 0 || e.disc != nil {
		return
	}
	env := e.lockInvEnv(st, key, obj)
	for i, cl := range invs {
		t, err := env.evalBool(cl.Expr)
		if err != nil {
			e.specErr(err)
			continue
		}
		name := cl.Name
		if name == "" {
			name = fmt.Sprintf("%d", i+1)
		}
		e.oblige(st, "lock-inv", key+":"+name, t, pos, cl.Tags, cl.Text)
	}
}

// callLockEffects checks `attr holds=...` style requirements of contracts:
// requires held(...) clauses are ordinary requires; nothing else to do here.
func (e *Exec) callLockEffects(st *State, c *FuncContract, env *SpecEnv, ci *callInfo) {}

// interfere: while this goroutine is blocked, others run. Everything guarded
// by a lock may change (whole arrays: any object), monotone ghosts only grow.
func (e *Exec) interfere(st *State) {
	before := map[string]Term{}
	for k, v := range st.heap {
		before[k] = v
	}
	defer func() {
		// objects allocated by the function under verification are its own until
		// it hands them to someone else: other goroutines do not touch them
		if e.top == nil {
			return
		}
		var hks []string
		for k := range st.heap {
			hks = append(hks, k)
		}
		sort.Strings(hks)
		for _, k := range hks {
			nv := st.heap[k]
			ov, ok := before[k]
			if !ok || ov.S == nv.S || !strings.HasPrefix(string(nv.Sort), "(Array Int ") || ov.Sort != nv.Sort {
				continue
			}
			if strings.HasPrefix(k, "ghost:") {
				continue
			}
			st.assert(Term{fmt.Sprintf("(forall ((r Int)) (! (=> (> r %s) (= (select %s r) (select %s r))) :pattern ((select %s r))))", e.top.entryTop.S, nv.S, ov.S, nv.S), SBool})
		}
	}()
	var keys []string
	for k := range e.keySort {
		keys = append(keys, k)
	}
	sort.Strings(keys)
	for _, g := range e.eng.specs.Guards {
		for _, f := range g.Fields {
			if strings.HasSuffix(f, "[]") {
				continue
			}
			for _, k := range keys {
				if k == f || strings.HasPrefix(k, f+".") || strings.HasPrefix(k, f+"#") {
					s := e.keySort[k]
					old, had := st.heap[k]
					st.heap[k] = e.freshConst("Hi."+k, s)
					st.seq++
					st.roots[k] = rootInfo{st.heap[k], st.seq}
					e.rootWF(st, k, st.heap[k], false)
					if e.eng.specs.StableNonNil[k] {
						if !had {
							old = e.declare(h0Name(k, st.epoch), s)
						}
						st.assert(Term{fmt.Sprintf("(forall ((x Int)) (! (=> (not (= (select %s x) 0)) (not (= (select %s x) 0))) :pattern ((select %s x))))", old.S, st.heap[k].S, st.heap[k].S), SBool})
					}
				}
			}
		}
	}
	for _, k := range keys {
		if strings.HasPrefix(k, "mapdom:map[*net/http.Request]") || strings.HasPrefix(k, "mapval:map[*net/http.Request]") {
			s := e.keySort[k]
			st.heap[k] = e.freshConst("Hi."+k, s)
		}
		if k == "ghost:closedAt" {
			// write-once: channels already closed keep their closing time
			old := st.heap[k]
			if old.S == "" {
				old = e.cur(st, k, SInt, false)
			}
			cl := e.cur(st, "ghost:closed", SBool, false)
			st.heap[k] = e.freshConst("Hi."+k, e.keySort[k])
			st.assert(Term{fmt.Sprintf("(forall ((x Int)) (! (=> (select %s x) (= (select %s x) (select %s x))) :pattern ((select %s x))))", cl.S, st.heap[k].S, old.S, st.heap[k].S), SBool})
			continue
		}
		if strings.HasPrefix(k, "ghost:") {
			g := e.eng.specs.Ghosts[strings.TrimPrefix(k, "ghost:")]
			if (g != nil && g.Monotone) || k == "ghost:closed" {
				old, ok := st.heap[k]
				if !ok {
					old = e.cur(st, k, elemSort(e.keySort[k]), false)
				}
				st.heap[k] = e.freshConst("Hi."+k, e.keySort[k])
				st.assert(Term{fmt.Sprintf("(forall ((x Int)) (! (=> (select %s x) (select %s x)) :pattern ((select %s x))))", old.S, st.heap[k].S, st.heap[k].S), SBool})
			}
		}
	}
	nt := e.freshConst("top.interf", SInt)
	st.assert(Ge(nt, st.allocTop))
	st.allocTop = nt
	e.assumeGlobalInv(st)
}

// assumeGlobalInv: invariants over shared state that every function preserves
// (each function in the cone proves them again at its return).
func (e *Exec) assumeGlobalInv(st *State) {
	if len(e.eng.specs.GlobalInv) == 0 {
		return
	}
	env := &SpecEnv{e: e, st: st, vars: map[string]Value{}, what: "global invariant"}
	if sp := e.eng.spkgs["server"]; sp != nil {
		env.pkg = sp.Pkg
	}
	for _, cl := range e.eng.specs.GlobalInv {
		t, err := env.evalBool(cl.Expr)
		if err != nil {
			e.specErr(err)
			continue
		}
		st.assert(t)
	}
}

func (e *Exec) checkGlobalInv(st *State, pos token.Pos) {
	if len(e.eng.specs.GlobalInv) == 0 || e.disc != nil {
		return
	}
	env := &SpecEnv{e: e, st: st, vars: map[string]Value{}, what: "global invariant"}
	if sp := e.eng.spkgs["server"]; sp != nil {
		env.pkg = sp.Pkg
	}
	for i, cl := range e.eng.specs.GlobalInv {
		t, err := env.evalBool(cl.Expr)
		if err != nil {
			e.specErr(err)
			continue
		}
		name := cl.Name
		if name == "" {
			name = fmt.Sprintf("%d", i+1)
		}
		e.oblige(st, "global-inv", name, t, pos, cl.Tags, cl.Text)
	}
}

// interferenceKey: heap arrays that interfere() may replace.
func (e *Exec) interferenceKey(k string) bool {
	if e.guardFor(k) != nil {
		return true
	}
	if strings.HasPrefix(k, "mapdom:map[*net/http.Request]") || strings.HasPrefix(k, "mapval:map[*net/http.Request]") {
		return true
	}
	if strings.HasPrefix(k, "ghost:") {
		g := e.eng.specs.Ghosts[strings.TrimPrefix(k, "ghost:")]
		return (g != nil && g.Monotone) || k == "ghost:closed" || k == "ghost:closedAt"
	}
	return false
}

// blockingPoint: no blocking primitive while a lock is held; shared state may
// change while blocked.
func (e *Exec) blockingPoint(st *State, pos token.Pos, what string) {
	e.interfere(st)
	if !e.checkLocks || e.disc != nil {
		return
	}
	for _, h := range st.locks {
		e.oblige(st, "lock", "blocking:"+e.eng.srcText(pos), False, pos, []string{"C18"}, what+" while holding "+h.Key)
		return
	}
}

// ---------------------------------------------------------------------------
// go statements: structured fork/join
// ---------------------------------------------------------------------------

type spawned struct {
	fn   *ssa.Function
	bind []Value
	args []Value
	key  string
}

func (e *Exec) goSpawn(st *State, fr *Frame, ci *callInfo, pos token.Pos) {
	name := ci.key
	ev := Event{Name: "Go", Pos: pos}
	ev.Args = []Term{IntLit(int64(e.pathID("go:" + name)))}
	e.emit(st, ev)
	// everything reachable from the closure's bindings is published
	for _, b := range append(append([]Value{}, ci.bind...), ci.args...) {
		for _, l := range b.L {
			st.published[l.S] = true
		}
		if b.P != nil {
			st.published[b.P.Base.S] = true
		}
	}
	if c := e.eng.specs.Funcs[ci.key]; c != nil && c.Attrs["forkjoin"] != "" && ci.fn != nil {
		// structured fork/join: remember which per-iteration value this child
		// was started for; its postcondition is assumed at the join
		e.usedContracts[c.Key] = true
		fv := c.Attrs["forkjoin"]
		for i, v := range ci.fn.FreeVars {
			if v.Name() == fv && i < len(ci.bind) && ci.bind[i].P != nil {
				x := e.loadPlace(st, ci.bind[i].P, nil)
				e.storeGhost(st, "spawned:"+c.Key, SBool, x.L[0], True)
			}
		}
		// the per-child value may equally be passed as an argument: go f(x)
		for i, p := range ci.fn.Params {
			if p.Name() == fv && i < len(ci.args) && len(ci.args[i].L) == 1 {
				e.storeGhost(st, "spawned:"+c.Key, SBool, ci.args[i].L[0], True)
			}
		}
		return
	}
	e.abstractions["go "+name+": spawned body verified separately (if under contract); parent continues"] = true
}

// joinSpawned implements wg.Wait() for the structured fork/join pattern: for
// every `go closure` of the current function whose closure has a contract with
// `attr forkjoin = v`, the conjunction of the children's postconditions is
// assumed over all values x for which a child was spawned; time advances to the
// finish time of the slowest child.
func (e *Exec) joinSpawned(st *State, fr *Frame, wg Value, pos token.Pos) {
	e.emit(st, Event{Name: "WgWait", Args: []Term{wg.L[0]}, Pos: pos})
	start := st.now
	nn := e.freshConst("now.join", SInt)
	st.assert(Ge(nn, st.now))
	type child struct {
		c  *FuncContract
		fn *ssa.Function
		mc *ssa.MakeClosure
	}
	var kids []child
	for _, b := range fr.fn.Blocks {
		for _, in := range b.Instrs {
			g, ok := in.(*ssa.Go)
			if !ok {
				continue
			}
			mc, ok := g.Call.Value.(*ssa.MakeClosure)
			if !ok {
				continue
			}
			fn := mc.Fn.(*ssa.Function)
			if c := e.eng.specs.Funcs[fnKey(fn)]; c != nil && c.Attrs["forkjoin"] != "" {
				kids = append(kids, child{c, fn, mc})
			}
		}
	}
	for _, k := range kids {
		key := "ghost:spawned:" + k.c.Key
		if _, ok := e.keySort[key]; !ok {
			continue
		}
		spawned := e.cur(st, key, SBool, false)
		x := e.freshName("q.child")
		xT := Term{x, SInt}
		finish := "sf.finish." + smtName(k.c.Key)
		e.declareFun(finish, []Sort{SInt}, SInt)
		fx := App(SInt, finish, xT)
		// what the children may have written: whole arrays of their assigns
		env := &SpecEnv{e: e, st: st, vars: map[string]Value{}, pkg: e.pkgOfFrame(fr), trace: nil, what: "join " + k.c.Key}
		fvName := k.c.Attrs["forkjoin"]
		for _, p := range k.fn.Params {
			if p.Name() == fvName {
				env.vars[p.Name()] = Value{T: p.Type(), L: []Term{xT}}
			}
		}
		for i, fv := range k.fn.FreeVars {
			pt, ok := fv.Type().(*types.Pointer)
			if !ok {
				continue
			}
			if fv.Name() == fvName {
				env.vars[fv.Name()] = Value{T: pt.Elem(), L: []Term{xT}}
				continue
			}
			// loop-invariant captured variables: read their cells now
			if bv, ok := fr.env[k.mc.Bindings[i]]; ok && bv.P != nil {
				env.vars[fv.Name()] = e.loadPlace(st, bv.P, nil)
				env.vars["&"+fv.Name()] = bv
				env.vars[fv.Name()+"$ptr"] = bv
			}
		}
		if !k.c.AssignsAll {
			for _, t := range e.assignTargets(env, k.c, k.c.Assigns) {
				old := e.cur(st, t.key, t.sort, t.two)
				if !t.whole && !strings.Contains(t.obj.S, x) {
					// the same object for every child
					e.havocAt(st, t.key, t.sort, t.two, t.obj)
				} else {
					e.havocKey(st, t.key, t.sort, t.two)
				}
				e.monotoneLinkFrom(st, t.key, old, st.heap[t.key])
			}
		} else {
			e.havocAll(st)
		}
		e.interfere(st)
		env.old = nil
		env.oldNow = start
		env.nowT = &fx
		var posts []Term
		for _, en := range k.c.Ensures {
			t, err := env.evalBool(en.Expr)
			if err != nil {
				e.specErr(err)
				continue
			}
			posts = append(posts, t)
		}
		guard := Select(spawned, xT)
		body := Implies(guard, And(append(posts, Le(start, fx), Le(fx, nn))...))
		st.assert(Term{fmt.Sprintf("(forall ((%s Int)) (! %s :pattern ((select %s %s))))", x, body.S, spawned.S, x), SBool})
		// the join ends exactly when the slowest child ends
		st.assert(Term{fmt.Sprintf("(or (and (= %s %s) (forall ((%s Int)) (not (select %s %s)))) (exists ((%s Int)) (and (select %s %s) (= (%s %s) %s))))",
			nn.S, start.S, x, spawned.S, x, x, spawned.S, x, finish, x, nn.S), SBool})
	}
	st.now = nn
}

// ---------------------------------------------------------------------------
// select
// ---------------------------------------------------------------------------

func (e *Exec) execSelect(st *State, fr *Frame, x *ssa.Select) ([]*State, bool) {
	// A blocking select returns the index of a ready case. Readiness of a
	// receive: closed(ch) for close-only channels, now >= fireAt(ch) for timers.
	tup := x.Type().(*types.Tuple)
	n := len(x.States)
	idx := e.freshConst("select.idx", SInt)
	lo := Zero
	if !x.Blocking {
		lo = IntLit(-1)
	}
	st.assert(And(Le(lo, idx), Lt(idx, IntLit(int64(n)))))
	// time passes while blocked
	nn := e.freshConst("now.select", SInt)
	st.assert(Ge(nn, st.now))
	before := st.now
	st.now = nn
	var closedBefore []Term
	for _, s := range x.States {
		closedBefore = append(closedBefore, e.define(st, "wasclosed", e.loadGhost(st, "closed", SBool, e.val(fr, s.Chan).L[0])))
	}
	e.loadGhost(st, "closedAt", SInt, Zero)
	if x.Blocking {
		// a case that is ready on arrival means no waiting; otherwise others run
		e.blockingPoint(st, x.Pos(), "select")
	}
	var earliest []Term
	for i, s := range x.States {
		ch := e.val(fr, s.Chan).L[0]
		isT := BoolLit(isTimerChan(s.Chan.Type()))
		fire := e.loadGhost(st, "fireAt", SInt, ch)
		wasClosed := closedBefore[i]
		closed := e.loadGhost(st, "closed", SBool, ch)
		closedAt := e.loadGhost(st, "closedAt", SInt, ch)
		// closed while we were blocked: closing time lies within the wait
		st.assert(Implies(And(closed, Not(wasClosed)), And(Le(before, closedAt), Le(closedAt, st.now))))
		// the select does not sleep past the moment a channel case became ready
		earliest = append(earliest, Implies(And(Not(isT), closed), Le(st.now, Ite(Ge(closedAt, before), closedAt, before))))
		// chosen case was ready at return time
		ready := Ite(isT, Ge(st.now, fire), closed)
		st.assert(Implies(Eq(idx, IntLit(int64(i))), ready))
		_ = closedAt
		// the select does not sleep past the earliest moment a timer case is ready
		earliest = append(earliest, Implies(isT, Le(st.now, Ite(Ge(fire, before), fire, before))))
	}
	st.assert(And(earliest...))
	vals := []Value{scalar(tInt, idx), e.freshValue(st, types.Typ[types.Bool], "select.ok")}
	for i := 2; i < tup.Len(); i++ {
		vals = append(vals, e.freshValue(st, tup.At(i).Type(), "select.recv"))
	}
	e.emit(st, Event{Name: "Select", Args: []Term{idx}, Pos: x.Pos()})
	fr.env[x] = Value{T: x.Type(), Tup: vals}
	fr.pc++
	return nil, true
}

// isTimerChan: channels of time.Time are timer channels (time.After, Ticker.C);
// every other channel the repository selects on is close-only.
func isTimerChan(t types.Type) bool {
	c, ok := t.Underlying().(*types.Chan)
	if !ok {
		return false
	}
	n, ok := types.Unalias(c.Elem()).(*types.Named)
	return ok && n.Obj().Pkg() != nil && n.Obj().Pkg().Path() == "time" && n.Obj().Name() == "Time"
}

// closeOnly(ch): ghost predicate "values are never sent on ch, it is only closed".
func (e *Exec) closeOnly(ch Term) Term {
	e.declareFun("sf.closeOnly", []Sort{SInt}, SBool)
	return App(SBool, "sf.closeOnly", ch)
}

// foreignGlobalStore: a store into a package-level variable of another module
// (or into the object such a variable points to, e.g. http.DefaultClient.Timeout)
// is a write to process-wide state that no lock of this program guards - every
// goroutine of the process, including the library's own, may read it.
func (e *Exec) foreignGlobalStore(st *State, fr *Frame, x *ssa.Store) {
	if !e.checkLocks || e.disc != nil {
		return
	}
	g := globalOf(x.Addr)
	if g == nil {
		return
	}
	if fn := x.Parent(); fn != nil && strings.HasPrefix(fn.Name(), "init") {
		return // package initialisation runs before any goroutine of this program
	}
	if strings.HasPrefix(g.Pkg.Pkg.Path(), "github.com/basecamp/kamal-proxy") {
		// a package-level variable of this program: writing it (or the object it
		// points to) after start-up is a write to state shared by every
		// goroutine; no `guarded_by` declaration covers package-level variables
		if len(st.locks) > 0 {
			return // under some lock: not judged here
		}
		if fn := x.Parent(); fn == nil || fn.Pkg == nil || fn.Pkg.Pkg.Name() != "server" {
			return // the command-line client runs one command on one goroutine and exits
		}
		what := e.eng.srcText(x.Pos())
		e.oblige(st, "lockset", fmt.Sprintf("write:package-global:%s.%s:%s", g.Pkg.Pkg.Name(), g.Name(), what), False, x.Pos(), []string{"C18"},
			fmt.Sprintf("write to package-level state (%s.%s) outside package initialisation and without any lock", g.Pkg.Pkg.Name(), g.Name()))
		return
	}
	path := g.Pkg.Pkg.Path()
	what := e.eng.srcText(x.Pos())
	e.oblige(st, "lockset", fmt.Sprintf("write:foreign-global:%s.%s:%s", path, g.Name(), what), False, x.Pos(), []string{"C18"},
		fmt.Sprintf("write to process-wide state of another package (%s.%s) that no lock of this program guards", path, g.Name()))
}

// foreignGlobalOf: the package-level variable of another module that the
// address is (or is reached through), or nil.
func foreignGlobalOf(v ssa.Value) *ssa.Global {
	g := globalOf(v)
	if g == nil || strings.HasPrefix(g.Pkg.Pkg.Path(), "github.com/basecamp/kamal-proxy") {
		return nil
	}
	return g
}

// globalOf: the package-level variable the address is (or is reached through).
func globalOf(v ssa.Value) *ssa.Global {
	var g *ssa.Global
	for depth := 0; depth < 8 && g == nil; depth++ {
		switch a := v.(type) {
		case *ssa.Global:
			g = a
		case *ssa.FieldAddr:
			v = a.X
		case *ssa.IndexAddr:
			v = a.X
		case *ssa.UnOp:
			if a.Op != token.MUL {
				return nil
			}
			v = a.X
		case *ssa.ChangeType:
			v = a.X
		default:
			return nil
		}
	}
	if g == nil || g.Pkg == nil || g.Pkg.Pkg == nil {
		return nil
	}
	return g
}
