package main

import (
	"context"
	"crypto/sha256"
	"fmt"
	"os"
	"os/exec"
	"path/filepath"
	"runtime"
	"strings"
	"sync"
	"time"
)

type solverSpec struct {
	name string
	args func(file string, timeoutMs int) []string
	bin  string
}

var solvers = []solverSpec{
	{"z3-new", func(f string, ms int) []string { return []string{"-smt2", fmt.Sprintf("-t:%d", ms), f} }, "z3-new"},
	{"cvc5", func(f string, ms int) []string {
		return []string{"--lang=smt2", fmt.Sprintf("--tlimit-per=%d", ms), "--strings-exp", f}
	}, "cvc5"},
	{"z3", func(f string, ms int) []string { return []string{"-smt2", fmt.Sprintf("-t:%d", ms), f} }, "z3"},
}

// symbolsOf collects the identifier tokens of an SMT text.
func symbolsOf(s string, into map[string]bool) {
	start := -1
	for i := 0; i <= len(s); i++ {
		if i < len(s) && s[i] != ' ' && s[i] != '(' && s[i] != ')' {
			if start < 0 {
				start = i
			}
			continue
		}
		if start >= 0 {
			into[s[start:i]] = true
			start = -1
		}
	}
}

// smtTextFiltered drops quantified assumptions that share no heap array / ghost
// / function symbol with the goal. Dropping assumptions is sound for a validity
// check; if the filtered query is not unsat the full one is tried.
func smtTextFiltered(o *Obligation) (string, bool) {
	goalSyms := map[string]bool{}
	symbolsOf(o.Goal.S, goalSyms)
	// one step of relevance through definitions used by the goal
	defs := map[string]string{}
	for _, l := range o.Lines {
		if strings.HasPrefix(l, "(define-fun ") {
			f := strings.Fields(l)
			defs[f[1]] = l
		}
	}
	for round := 0; round < 6; round++ {
		grew := false
		for n, l := range defs {
			if goalSyms[n] {
				before := len(goalSyms)
				symbolsOf(l, goalSyms)
				if len(goalSyms) > before {
					grew = true
				}
			}
		}
		if !grew {
			break
		}
	}
	// heap arrays and spec functions the goal depends on, closed under the
	// assertions that mention one of them (array symbols only: two facts about
	// different fields of the same object are unrelated)
	isArr := func(s string) bool {
		return strings.HasPrefix(s, "H") || strings.HasPrefix(s, "sf.")
	}
	arrCone := map[string]bool{}
	for s := range goalSyms {
		if isArr(s) {
			arrCone[s] = true
		}
	}
	lineArrs := make([]map[string]bool, len(o.Lines))
	for i, l := range o.Lines {
		if !strings.HasPrefix(l, "(assert ") && !strings.HasPrefix(l, "(define-fun ") {
			continue
		}
		syms := map[string]bool{}
		symbolsOf(l, syms)
		m := map[string]bool{}
		for s := range syms {
			if isArr(s) {
				m[s] = true
			}
		}
		lineArrs[i] = m
	}
	for round := 0; round < 8; round++ {
		grew := false
		for _, m := range lineArrs {
			hit := false
			for s := range m {
				if arrCone[s] {
					hit = true
					break
				}
			}
			if !hit {
				continue
			}
			for s := range m {
				if !arrCone[s] {
					arrCone[s] = true
					grew = true
				}
			}
		}
		if !grew {
			break
		}
	}
	dropped := false
	var b strings.Builder
	b.WriteString("(set-logic ALL)\n")
	for i, l := range o.Lines {
		if strings.HasPrefix(l, "(assert ") && !strings.HasPrefix(l, "(assert (forall") && len(lineArrs[i]) > 0 {
			// a ground fact about heap arrays none of which the goal can depend on
			rel := false
			for s := range lineArrs[i] {
				if arrCone[s] {
					rel = true
					break
				}
			}
			if !rel {
				dropped = true
				continue
			}
		}
		if strings.HasPrefix(l, "(assert (forall") || strings.HasPrefix(l, "(assert (or (and (= now.join") {
			syms := map[string]bool{}
			symbolsOf(l, syms)
			rel := false
			for s := range syms {
				if goalSyms[s] && (strings.HasPrefix(s, "H") || strings.HasPrefix(s, "sf.") || strings.Contains(s, "!")) && !strings.HasPrefix(s, "q.") {
					rel = true
					break
				}
			}
			if !rel {
				dropped = true
				continue
			}
		}
		b.WriteString(l)
		b.WriteByte('\n')
	}
	b.WriteString("(assert (not " + o.Goal.S + "))\n(check-sat)\n")
	return b.String(), dropped
}

func smtText(o *Obligation, model bool) string {
	var b strings.Builder
	if model {
		b.WriteString("(set-option :produce-models true)\n")
	}
	b.WriteString("(set-logic ALL)\n")
	for _, l := range o.Lines {
		b.WriteString(l)
		b.WriteByte('\n')
	}
	if !o.ExpectSat {
		b.WriteString("(assert (not " + o.Goal.S + "))\n")
	}
	b.WriteString("(check-sat)\n")
	if model {
		b.WriteString("(get-model)\n")
	}
	return b.String()
}

type solveResult struct {
	status string
	solver string
	ms     int64
	out    string
	all    map[string]string
}

var procSem = make(chan struct{}, 16)

func runSolver(ctx context.Context, sp solverSpec, file string, timeoutMs int) (string, string) {
	procSem <- struct{}{}
	defer func() { <-procSem }()
	c, cancel := context.WithTimeout(ctx, time.Duration(timeoutMs+2000)*time.Millisecond)
	defer cancel()
	cmd := exec.CommandContext(c, sp.bin, sp.args(file, timeoutMs)...)
	out, _ := cmd.CombinedOutput()
	s := strings.TrimSpace(string(out))
	first := s
	if i := strings.IndexByte(s, '\n'); i >= 0 {
		first = s[:i]
	}
	first = strings.TrimSpace(first)
	switch first {
	case "sat", "unsat", "unknown":
		return first, s
	}
	if c.Err() != nil || strings.Contains(s, "timeout") || strings.Contains(s, "interrupted") {
		return "timeout", s
	}
	if s == "" {
		return "timeout", s
	}
	return "error", s
}

// solve races the portfolio on one obligation. In quick mode the first
// definitive answer wins; in thorough mode all answers are collected to
// detect disagreement.
func (eng *Engine) solve(o *Obligation, timeoutMs int, all bool) {
	o.Answers = map[string]string{}
	if eng.updatingLedger && !alwaysClaimed(o.Kind) {
		// the ledger admits a safety / lock obligation only if it discharges
		// promptly: well inside the budget a later check will give it
		if timeoutMs > 4000 {
			timeoutMs = 4000
		}
	}
	want := "unsat"
	if o.ExpectSat {
		want = "sat"
	}
	write := func(text, suffix string) string {
		h := sha256.Sum256([]byte(text))
		file := filepath.Join(eng.tmpdir, fmt.Sprintf("%x%s.smt2", h[:8], suffix))
		os.WriteFile(file, []byte(text), 0o644)
		return file
	}
	// race runs the given solvers on one file; first answer equal to `stopOn`
	// (or any definitive answer if stopOn == "") ends the race.
	race := func(file string, which []solverSpec, ms int, stopOn string, tag string) (string, string, int64) {
		ctx, cancel := context.WithCancel(context.Background())
		defer cancel()
		type ans struct {
			solver, status string
			ms             int64
		}
		ch := make(chan ans, len(which))
		for _, sp := range which {
			sp := sp
			go func() {
				t0 := time.Now()
				st, _ := runSolver(ctx, sp, file, ms)
				ch <- ans{sp.name, st, time.Since(t0).Milliseconds()}
			}()
		}
		best, bestSolver, bestMs := "", "", int64(0)
		for i := 0; i < len(which); i++ {
			a := <-ch
			o.Answers[a.solver+tag] = a.status
			if a.status == "sat" || a.status == "unsat" {
				if best == "" || (best != want && a.status == want) {
					best, bestSolver, bestMs = a.status, a.solver, a.ms
				}
				if !all && (stopOn == "" || a.status == stopOn) {
					cancel()
					// drain
					for j := i + 1; j < len(which); j++ {
						<-ch
					}
					break
				}
			}
		}
		return best, bestSolver, bestMs
	}
	start := time.Now()
	full := write(smtText(o, false), "")
	o.SMTFile = full
	if o.ExpectSat {
		// vacuity guard: only a quick `unsat` matters (with quantified assumptions
		// in play the solvers rarely report `sat`)
		ms := 2000
		if timeoutMs < ms {
			ms = timeoutMs
		}
		// first the ground part alone (quantified assumptions dropped): fewer
		// hypotheses, so `unsat` there means the full path is infeasible too,
		// and without quantifiers the solvers answer definitively
		var gb strings.Builder
		gb.WriteString("(set-logic ALL)\n")
		for _, l := range o.Lines {
			if strings.Contains(l, "(forall ") || strings.Contains(l, "(exists ") {
				continue
			}
			gb.WriteString(l)
			gb.WriteByte('\n')
		}
		gb.WriteString("(check-sat)\n")
		ground := write(gb.String(), ".g")
		if st, sv, tm := race(ground, solvers[:2], ms, "", "/g"); st == "unsat" {
			o.Status, o.Solver, o.TimeMs = st, sv, tm
			o.Model = eng.blameInfeasible(o, true, write)
			return
		}
		st, sv, tm := race(full, solvers[:2], ms, "", "")
		if st == "" {
			st = "unknown"
		}
		o.Status, o.Solver, o.TimeMs = st, sv, tm
		if st == "unsat" {
			o.Model = eng.blameInfeasible(o, false, write)
		}
		return
	}
	fileA := full
	if !o.ExpectSat {
		if ft, dropped := smtTextFiltered(o); dropped {
			fileA = write(ft, ".a")
		}
	}
	if !o.ExpectSat && !all {
		// stage A: drop quantified assumptions unrelated to the goal (sound: fewer hypotheses)
		// A1: one fast solver alone; A2: the other two
		first, rest := solvers[:1], solvers[1:]
		if strings.Contains(o.Goal.S, "(exists ") {
			// goals with an existential under a universal: the older z3 finds the
			// witness by E-matching in well under a second where z3-new needs
			// several seconds and cvc5 gives up (measured on
			// updateHealthyTargets/loop1:subset) - start with it
			for i, sp := range solvers {
				if sp.name == "z3" {
					first = solvers[i : i+1]
					rest = append(append([]solverSpec(nil), solvers[:i]...), solvers[i+1:]...)
				}
			}
		}
		if st, sv, ms := race(fileA, first, 2500, "unsat", "/a"); st == "unsat" {
			o.Status, o.Solver, o.TimeMs = st, sv, ms
			return
		}
		if st, sv, ms := race(fileA, rest, 5000, "unsat", "/a"); st == "unsat" {
			o.Status, o.Solver, o.TimeMs = st, sv, ms
			return
		}
		if fileA == full {
			// nothing was dropped: the remaining budget goes to one long race below
		}
	}
	st, sv, ms := race(full, solvers, timeoutMs, "", "")
	if st != "" {
		o.Status, o.Solver, o.TimeMs = st, sv, ms
		return
	}
	if all && !o.ExpectSat {
		// thorough tier: every solver has been asked about the whole script and
		// none was definitive. Before that counts as a failure, try what the
		// quick tier tries first: the script without the quantified assumptions
		// that do not mention anything the goal mentions (fewer hypotheses, so
		// `unsat` there is conclusive). The solvers' quantifier instantiation is
		// sensitive to the order of assertions, which varies from run to run.
		if fileA != full {
			if st, sv, ms := race(fileA, solvers, timeoutMs/2, "unsat", "/a"); st == "unsat" {
				o.Status, o.Solver, o.TimeMs = st, sv, ms
				return
			}
		}
		all = false // and then the retry stages below
	}
	if !all && !eng.noRetry[o.Group] && !(eng.updatingLedger && !alwaysClaimed(o.Kind)) {
		// No definitive answer. Before this is reported as a failed obligation,
		// try once more with three times the budget: an obligation that needs a
		// second or two on an idle machine must not fail because the machine is
		// busy. (A genuinely failing obligation costs this extra time once.)
		for k := range o.Answers {
			delete(o.Answers, k)
		}
		// (the reduced script first: some obligations are only ever proved
		// from it, the solvers answering `unknown` on the whole script at once)
		if fileA != full {
			if st, sv, ms := race(fileA, solvers, 3*timeoutMs, "unsat", "/retry-a"); st == "unsat" {
				o.Status, o.Solver, o.TimeMs = st, sv, ms
				return
			}
		}
		if st, sv, ms := race(full, solvers, 3*timeoutMs, "", "/retry"); st != "" {
			o.Status, o.Solver, o.TimeMs = st, sv, ms
			return
		}
	}
	if !all && !eng.updatingLedger && eng.provedBefore[o.Group] {
		// This obligation was discharged on the unchanged tree and now has no
		// definitive answer even with the larger budget. Either the code changed,
		// or the machine is so busy that the solvers starve. Tell the two apart
		// before raising an alarm: one obligation at a time, after the load has
		// had a chance to drop, with six times the budget (at most four times
		// per run, so a really broken function costs minutes, not hours).
		eng.quietMu.Lock()
		if eng.quietLeft > 0 {
			eng.quietLeft--
			waitForQuiet(45 * time.Second)
			for k := range o.Answers {
				delete(o.Answers, k)
			}
			if fileA != full {
				if st, sv, ms := race(fileA, solvers, 6*timeoutMs, "unsat", "/quiet-a"); st == "unsat" {
					o.Status, o.Solver, o.TimeMs = st, sv, ms
					eng.quietMu.Unlock()
					return
				}
			}
			if st, sv, ms := race(full, solvers, 6*timeoutMs, "", "/quiet"); st != "" {
				o.Status, o.Solver, o.TimeMs = st, sv, ms
				eng.quietMu.Unlock()
				return
			}
		}
		eng.quietMu.Unlock()
	}
	o.Status = "unknown"
	for _, s := range o.Answers {
		if s == "error" {
			o.Status = "error"
		}
	}
	for _, s := range o.Answers {
		if s == "timeout" {
			o.Status = "timeout"
		}
	}
	o.TimeMs = time.Since(start).Milliseconds()
}

// blameInfeasible finds, for an infeasible path, the first assertion at which
// the accumulated facts become contradictory (shortest unsatisfiable prefix of
// the path script, by bisection). It returns "branch: <line>" when that
// assertion is a branch condition (dead code under the contracts in force) and
// "assumption: <line>" when it is a fact taken from a contract or invariant.
func (eng *Engine) blameInfeasible(o *Obligation, ground bool, write func(string, string) string) string {
	var idx []int // indices of assert lines
	for i, l := range o.Lines {
		if strings.HasPrefix(l, "(assert ") {
			if ground && (strings.Contains(l, "(forall ") || strings.Contains(l, "(exists ")) {
				continue
			}
			idx = append(idx, i)
		}
	}
	unsatUpTo := func(k int) bool { // asserts idx[0..k] included
		var b strings.Builder
		b.WriteString("(set-logic ALL)\n")
		last := idx[k]
		for i, l := range o.Lines {
			if i > last {
				break
			}
			if ground && (strings.Contains(l, "(forall ") || strings.Contains(l, "(exists ")) {
				continue
			}
			b.WriteString(l)
			b.WriteByte('\n')
		}
		b.WriteString("(check-sat)\n")
		f := write(b.String(), fmt.Sprintf(".b%d", k))
		st, _ := runSolver(context.Background(), solvers[0], f, 2000)
		if st != "unsat" && st != "sat" {
			st, _ = runSolver(context.Background(), solvers[1], f, 2000)
		}
		return st == "unsat"
	}
	if len(idx) == 0 {
		return ""
	}
	lo, hi := 0, len(idx)-1 // invariant: prefix hi is unsat
	for lo < hi {
		mid := (lo + hi) / 2
		if unsatUpTo(mid) {
			hi = mid
		} else {
			lo = mid + 1
		}
	}
	line := o.Lines[idx[hi]]
	if strings.HasSuffix(line, ";branch") {
		return "branch: " + line
	}
	return "assumption: " + line
}

// solveAll discharges obligations in parallel, de-duplicated by content.
func (eng *Engine) solveAll(obls []*Obligation, timeoutMs int, all bool) {
	byText := map[string][]*Obligation{}
	var order []string
	for _, o := range obls {
		if o.Status != "" && len(o.Lines) == 0 {
			continue // decided by the generator itself (shape, vacuity, contract fit)
		}
		t := smtText(o, false)
		if _, ok := byText[t]; !ok {
			order = append(order, t)
		}
		byText[t] = append(byText[t], o)
	}
	var wg sync.WaitGroup
	sem := make(chan struct{}, 8)
	for _, t := range order {
		rep := byText[t][0]
		wg.Add(1)
		sem <- struct{}{}
		go func(rep *Obligation, same []*Obligation) {
			defer wg.Done()
			defer func() { <-sem }()
			eng.solve(rep, timeoutMs, all)
			for _, o := range same[1:] {
				o.Status, o.Solver, o.TimeMs, o.Answers, o.SMTFile = rep.Status, rep.Solver, rep.TimeMs, rep.Answers, rep.SMTFile
			}
		}(rep, byText[t])
	}
	wg.Wait()
}

// getModel re-runs a failed obligation asking for a model.
func (eng *Engine) getModel(o *Obligation, timeoutMs int) string {
	text := smtText(o, true)
	file := filepath.Join(eng.tmpdir, "model.smt2")
	f, _ := os.CreateTemp(eng.tmpdir, "model*.smt2")
	file = f.Name()
	f.WriteString(text)
	f.Close()
	for _, sp := range solvers[:2] {
		st, out := runSolver(context.Background(), sp, file, timeoutMs)
		if st == "sat" {
			return sp.name + ":\n" + out
		}
	}
	return ""
}

// waitForQuiet waits (up to max) for the 1-minute load average to fall below
// the number of CPUs.
func waitForQuiet(max time.Duration) {
	deadline := time.Now().Add(max)
	for time.Now().Before(deadline) {
		data, err := os.ReadFile("/proc/loadavg")
		if err != nil {
			return
		}
		var l1 float64
		if _, err := fmt.Sscanf(string(data), "%f", &l1); err != nil || l1 < float64(runtime.NumCPU()) {
			return
		}
		time.Sleep(3 * time.Second)
	}
}
