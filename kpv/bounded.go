package main

import (
	"encoding/json"
	"fmt"
	"os"
	"os/exec"
	"path/filepath"
	"regexp"
	"strconv"
	"strings"
	"time"
)

// Bounded stand-ins. A function whose summary is assumed (`attr trusted_summary`)
// because its proof is out of the generator's reach may have a bounded check of
// the REAL function registered here: a Go test kept under /verif/bounded, injected
// into the package with `go test -overlay` (nothing is written into the repository),
// which enumerates every input up to a stated bound, runs the function and compares
// the result with an oracle written from the same spec functions. A bounded check
// is labelled bounded in the evidence and is never counted among the proved
// obligations. When it fails, the failing input is a counterexample replayed on the
// real code (the one kind of violation here that is not `no-failing-input-found`).
type boundedCheck struct {
	Key      string   // contract key of the trusted summary it stands in for
	Also     []string // further contract keys whose presence in a check's function set triggers it
	File     string   // under /verif/bounded
	Test     string
	Pkg      string // package directory relative to the repository root
	Bound    string
	Compares string
}

var boundedRegistry = []boundedCheck{{
	Key:      "(*server.ServiceMap).updateRequestServiceMap",
	File:     "update_request_service_map_test.go.txt",
	Test:     "TestKpvBoundedUpdateRequestServiceMap",
	Pkg:      "internal/server",
	Also:     []string{"(*server.ServiceMap).Set", "(*server.ServiceMap).Remove"},
	Bound:    "every set of 1..3 services, each with one of 7 host lists (default, exact, wildcard, two hosts) and one of 6 path-prefix lists (root, nested, two prefixes), no (host, prefix) pair claimed twice, three TLS assignments; per set: each service Set in turn, each root-path service redeployed under its name onto other host lists and back, each service Removed (the real ServiceMap.Set / Remove, which call the function), compared after every step",
	Compares: "the routing table the real function builds against R1-R4 of spec/routing.spec (every binding comes from an installed service that lists the pair; every listed pair has exactly one binding; bindings sorted by descending prefix length; no empty host entry), and the TLS settings each service ends with against 'a service that does not serve the root path follows the root-path service of its first host, else the defaults'",
}}

type boundedResult struct {
	Check  boundedCheck
	Ran    bool
	Cases  int
	Failed bool
	Input  string // JSON of the failing input
	Output string
	WallS  float64
	Cmd    string
}

func (eng *Engine) runBounded(bc boundedCheck) *boundedResult {
	res := &boundedResult{Check: bc}
	t0 := time.Now()
	src := filepath.Join(verifDir, "bounded", bc.File)
	if _, err := os.Stat(src); err != nil {
		res.Output = "bounded test source missing: " + err.Error()
		return res
	}
	ov := filepath.Join(eng.tmpdir, "bounded-overlay.json")
	target := filepath.Join(eng.repo, bc.Pkg, "zz_kpv_bounded_test.go")
	data, _ := json.Marshal(map[string]any{"Replace": map[string]string{target: src}})
	os.WriteFile(ov, data, 0o644)
	args := []string{"test", "-overlay", ov, "-vet=off", "-count=1", "-timeout", "300s", "-v", "-run", "^" + bc.Test + "$", "./" + bc.Pkg + "/"}
	cmd := exec.Command("go", args...)
	cmd.Dir = eng.repo
	cmd.Env = append(os.Environ(), "GOFLAGS=-mod=mod", "GOPROXY=off")
	out, err := cmd.CombinedOutput()
	res.WallS = time.Since(t0).Seconds()
	res.Cmd = "cd " + eng.repo + " && GOFLAGS=-mod=mod GOPROXY=off go " + strings.Join(args, " ")
	res.Output = trunc(string(out), 4000)
	if m := regexp.MustCompile(`KPV-BOUNDED-DONE cases=(\d+)`).FindStringSubmatch(string(out)); m != nil {
		res.Cases, _ = strconv.Atoi(m[1])
		res.Ran = true
	}
	if m := regexp.MustCompile(`(?m)^KPV-BOUNDED-FAIL (.*)$`).FindStringSubmatch(string(out)); m != nil {
		res.Failed, res.Input, res.Ran = true, m[1], true
	}
	if err != nil && !res.Failed {
		// did not build or did not run (a renamed field, a changed signature): the
		// bounded stand-in is silent then - it neither passes nor raises an alarm
		res.Ran = false
	}
	return res
}

// writeBoundedReplay: the failing input, the oracle clause it violates and the
// command that reruns it against the real code.
func (eng *Engine) writeBoundedReplay(prop string, r *boundedResult) string {
	dir := filepath.Join(verifDir, "replays", prop)
	os.MkdirAll(dir, 0o755)
	path := filepath.Join(dir, sanitize(r.Check.Key+"/bounded")+".json")
	var input any
	json.Unmarshal([]byte(r.Input), &input)
	// a self-contained rerun: the overlay file is kept next to the replay file
	ov := filepath.Join(dir, "bounded-overlay.json")
	ovData, _ := json.Marshal(map[string]any{"Replace": map[string]string{filepath.Join(eng.repo, r.Check.Pkg, "zz_kpv_bounded_test.go"): filepath.Join(verifDir, "bounded", r.Check.File)}})
	os.WriteFile(ov, ovData, 0o644)
	r.Cmd = fmt.Sprintf("cd %s && GOFLAGS=-mod=mod GOPROXY=off go test -overlay %s -vet=off -count=1 -v -run '^%s$' ./%s/", eng.repo, ov, r.Check.Test, r.Check.Pkg)
	data, _ := json.MarshalIndent(map[string]any{
		"property":      prop,
		"obligation":    r.Check.Key + "/bounded:" + r.Check.Test,
		"kind":          "bounded check of the real function (stand-in for a trusted summary)",
		"failing_input": input,
		"bound":         r.Check.Bound,
		"oracle":        r.Check.Compares,
		"replayed":      "the failing input was executed against the real code by the command below; it fails there",
		"rerun":         r.Cmd,
		"repo":          eng.repo,
		"test_source":   filepath.Join(verifDir, "bounded", r.Check.File),
		"test_output":   r.Output,
	}, "", " ")
	os.WriteFile(path, append(data, '\n'), 0o644)
	return path
}

func (r *boundedResult) evidence() map[string]any {
	status := "passed"
	if !r.Ran {
		status = "did not run (the test does not build against this tree); nothing concluded"
	} else if r.Failed {
		status = "FAILED"
	}
	return map[string]any{
		"stands_in_for": "trusted summary of " + r.Check.Key,
		"label":         "bounded (not a proof; not counted in obligations/discharged)",
		"bound":         r.Check.Bound,
		"compares":      r.Check.Compares,
		"cases_run":     r.Cases,
		"status":        status,
		"wall_s":        r.WallS,
		"how":           fmt.Sprintf("go test -overlay (test source /verif/bounded/%s injected into %s; the repository is not written to)", r.Check.File, r.Check.Pkg),
	}
}
