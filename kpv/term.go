package main

import (
	"fmt"
	"math/big"
	"strings"
)

// Sort is an SMT-LIB sort, written out.
type Sort string

const (
	SInt  Sort = "Int"
	SBool Sort = "Bool"
	SStr  Sort = "String"
	SF64  Sort = "(_ FloatingPoint 11 53)"
	SReal Sort = "Real"
)

func ArrS(idx, el Sort) Sort { return Sort("(Array " + string(idx) + " " + string(el) + ")") }

// Term is an SMT-LIB term with its sort. Terms are kept as strings; sharing
// is obtained by binding instruction results to define-fun names in the script.
type Term struct {
	S    string
	Sort Sort
}

func (t Term) String() string { return t.S }

var (
	True  = Term{"true", SBool}
	False = Term{"false", SBool}
	Zero  = Term{"0", SInt}
	One   = Term{"1", SInt}
)

func IntLit(n int64) Term {
	if n < 0 {
		return Term{fmt.Sprintf("(- %d)", -n), SInt}
	}
	return Term{fmt.Sprintf("%d", n), SInt}
}

func BigLit(n *big.Int) Term {
	if n.Sign() < 0 {
		return Term{"(- " + new(big.Int).Neg(n).String() + ")", SInt}
	}
	return Term{n.String(), SInt}
}

func BoolLit(b bool) Term {
	if b {
		return True
	}
	return False
}

// StrLit encodes a Go (byte) string as an SMT-LIB 2.6 string literal, one
// character per byte.
func StrLit(s string) Term {
	var b strings.Builder
	b.WriteByte('"')
	for i := 0; i < len(s); i++ {
		c := s[i]
		switch {
		case c == '"':
			b.WriteString(`""`)
		case c == '\\':
			b.WriteString(`\u{5c}`)
		case c >= 0x20 && c < 0x7f:
			b.WriteByte(c)
		default:
			fmt.Fprintf(&b, `\u{%x}`, c)
		}
	}
	b.WriteByte('"')
	return Term{b.String(), SStr}
}

func App(sort Sort, f string, args ...Term) Term {
	var b strings.Builder
	b.WriteByte('(')
	b.WriteString(f)
	for _, a := range args {
		b.WriteByte(' ')
		b.WriteString(a.S)
	}
	b.WriteByte(')')
	return Term{b.String(), sort}
}

func Not(a Term) Term {
	switch a.S {
	case "true":
		return False
	case "false":
		return True
	}
	if strings.HasPrefix(a.S, "(not ") {
		return Term{a.S[5 : len(a.S)-1], SBool}
	}
	return App(SBool, "not", a)
}

func And(ts ...Term) Term {
	out := make([]Term, 0, len(ts))
	for _, t := range ts {
		if t.S == "true" {
			continue
		}
		if t.S == "false" {
			return False
		}
		out = append(out, t)
	}
	switch len(out) {
	case 0:
		return True
	case 1:
		return out[0]
	}
	return App(SBool, "and", out...)
}

func Or(ts ...Term) Term {
	out := make([]Term, 0, len(ts))
	for _, t := range ts {
		if t.S == "false" {
			continue
		}
		if t.S == "true" {
			return True
		}
		out = append(out, t)
	}
	switch len(out) {
	case 0:
		return False
	case 1:
		return out[0]
	}
	return App(SBool, "or", out...)
}

func Implies(a, b Term) Term {
	if a.S == "true" {
		return b
	}
	if a.S == "false" || b.S == "true" {
		return True
	}
	return App(SBool, "=>", a, b)
}

func Eq(a, b Term) Term {
	if a.S == b.S {
		return True
	}
	if a.Sort != b.Sort {
		panic(fmt.Sprintf("Eq: sort mismatch %s:%s vs %s:%s", a.S, a.Sort, b.S, b.Sort))
	}
	if isLit(a) && isLit(b) {
		return False // distinct literals of the same sort
	}
	return App(SBool, "=", a, b)
}

func isLit(t Term) bool {
	if t.S == "" {
		return false
	}
	switch t.Sort {
	case SInt:
		c := t.S[0]
		return (c >= '0' && c <= '9') || strings.HasPrefix(t.S, "(- ") && !strings.ContainsAny(t.S[3:], " (")
	case SBool:
		return t.S == "true" || t.S == "false"
	case SStr:
		return t.S[0] == '"'
	}
	return false
}

func Neq(a, b Term) Term { return Not(Eq(a, b)) }

// GoEq is Go's == on scalars: IEEE equality on floats, identity otherwise.
func GoEq(a, b Term) Term {
	if a.Sort == SF64 && b.Sort == SF64 {
		return App(SBool, "fp.eq", a, b)
	}
	return Eq(a, b)
}

func Ite(c, a, b Term) Term {
	if c.S == "true" {
		return a
	}
	if c.S == "false" {
		return b
	}
	if a.S == b.S {
		return a
	}
	return App(a.Sort, "ite", c, a, b)
}

func Add(a, b Term) Term {
	if b.S == "0" {
		return a
	}
	if a.S == "0" {
		return b
	}
	return App(SInt, "+", a, b)
}
func Sub(a, b Term) Term {
	if b.S == "0" {
		return a
	}
	return App(SInt, "-", a, b)
}
func Le(a, b Term) Term { return App(SBool, "<=", a, b) }
func Lt(a, b Term) Term { return App(SBool, "<", a, b) }
func Ge(a, b Term) Term { return App(SBool, ">=", a, b) }
func Gt(a, b Term) Term { return App(SBool, ">", a, b) }

func Select(arr, idx Term) Term {
	el := elemSort(arr.Sort)
	return App(el, "select", arr, idx)
}

func Store(arr, idx, v Term) Term {
	return App(arr.Sort, "store", arr, idx, v)
}

// elemSort returns the element sort of "(Array I E)".
func elemSort(s Sort) Sort {
	_, e := splitArr(s)
	return e
}

func idxSort(s Sort) Sort {
	i, _ := splitArr(s)
	return i
}

func splitArr(s Sort) (Sort, Sort) {
	str := string(s)
	if !strings.HasPrefix(str, "(Array ") {
		panic("not an array sort: " + str)
	}
	body := str[7 : len(str)-1]
	// first sort token
	end := sortEnd(body, 0)
	return Sort(body[:end]), Sort(strings.TrimSpace(body[end:]))
}

func sortEnd(s string, i int) int {
	if s[i] != '(' {
		j := strings.IndexByte(s[i:], ' ')
		if j < 0 {
			return len(s)
		}
		return i + j
	}
	depth := 0
	for j := i; j < len(s); j++ {
		switch s[j] {
		case '(':
			depth++
		case ')':
			depth--
			if depth == 0 {
				return j + 1
			}
		}
	}
	return len(s)
}

// zeroOf gives the Go zero value of a leaf sort.
func zeroOf(s Sort) Term {
	switch s {
	case SInt:
		return Zero
	case SBool:
		return False
	case SStr:
		return Term{`""`, SStr}
	case SF64:
		return Term{"(_ +zero 11 53)", SF64}
	case SReal:
		return Term{"0.0", SReal}
	}
	panic("zeroOf: " + string(s))
}

// constArr is ((as const (Array I E)) v)
func constArr(s Sort, v Term) Term {
	return Term{"((as const " + string(s) + ") " + v.S + ")", s}
}

// smtName makes an identifier safe for use as an SMT symbol (quoted).
func smtName(s string) string {
	var b strings.Builder
	for _, r := range s {
		switch {
		case r >= 'a' && r <= 'z', r >= 'A' && r <= 'Z', r >= '0' && r <= '9', r == '_', r == '.', r == '!', r == '$', r == '-':
			b.WriteRune(r)
		case r == '/':
			b.WriteByte('.')
		case r == '*':
			b.WriteString("ptr.")
		case r == '[':
			b.WriteString(".L.")
		case r == ']':
			b.WriteString(".R.")
		case r == ' ':
			b.WriteByte('_')
		default:
			fmt.Fprintf(&b, "_x%x_", r)
		}
	}
	return b.String()
}
