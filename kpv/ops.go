package main

import (
	"fmt"
	"go/token"
	"go/types"
	"strings"

	"golang.org/x/tools/go/ssa"
)

func (e *Exec) execUnOp(st *State, fr *Frame, x *ssa.UnOp) ([]*State, bool) {
	v := e.val(fr, x.X)
	switch x.Op {
	case token.MUL: // load
		if g, ok := x.X.(*ssa.Global); ok {
			e.setVal(st, fr, x, e.loadGlobal(st, g, nil))
			fr.pc++
			return nil, true
		}
		p := e.derefPlace(st, v, x.Pos(), e.eng.srcText(x.Pos()))
		e.lockCheckAccess(st, p, false, x.Pos())
		lv := e.loadPlace(st, p, nil)
		lv.T = x.Type()
		for i := range lv.L {
			lv.L[i] = e.define(st, fr.fn.Name()+"."+x.Name(), lv.L[i])
		}
		e.assumeLoaded(st, lv)
		fr.env[x] = lv
	case token.NOT:
		e.setVal(st, fr, x, scalar(x.Type(), Not(v.Leaf())))
	case token.SUB:
		if isFloat(x.Type()) {
			e.setVal(st, fr, x, scalar(x.Type(), App(SF64, "fp.neg", v.Leaf())))
		} else {
			r := App(SInt, "-", v.Leaf())
			e.overflowCheck(st, x.Type(), r, x.Pos())
			e.setVal(st, fr, x, scalar(x.Type(), r))
		}
	case token.XOR:
		e.note(st, "bitwise complement abstracted")
		e.setVal(st, fr, x, e.freshValue(st, x.Type(), "xor"))
	case token.ARROW:
		// blocking receive
		e.blockingPoint(st, x.Pos(), "channel receive")
		e.emit(st, Event{Name: "Recv", Args: []Term{v.L[0]}, Pos: x.Pos()})
		if x.CommaOk {
			tup := x.Type().(*types.Tuple)
			e.setVal(st, fr, x, Value{T: x.Type(), Tup: []Value{e.freshValue(st, tup.At(0).Type(), "recv"), e.freshValue(st, tup.At(1).Type(), "recvok")}})
		} else {
			e.setVal(st, fr, x, e.freshValue(st, x.Type(), "recv"))
		}
	default:
		panic("unop " + x.Op.String())
	}
	fr.pc++
	return nil, true
}

func (e *Exec) overflowCheck(st *State, t types.Type, r Term, pos token.Pos) {
	b, ok := t.Underlying().(*types.Basic)
	if !ok || b.Info()&types.IsInteger == 0 {
		return
	}
	if isLit(r) {
		return
	}
	what := e.eng.srcText(pos)
	e.oblige(st, "safety", "overflow:"+what, inRange(b, r), pos, nil, what)
	// after the obligation, continue under the assumption that it holds
	st.assert(inRange(b, r))
}

func (e *Exec) binop(st *State, x *ssa.BinOp, a, b Value) Value {
	t := x.Type()
	op := x.Op
	// comparisons of composite / reference values
	if op == token.EQL || op == token.NEQ {
		var eq Term
		switch {
		case isSlice(a.T) || isSlice(b.T):
			// only comparison with nil is legal
			if isSlice(a.T) {
				eq = Eq(a.L[0], Zero)
			} else {
				eq = Eq(b.L[0], Zero)
			}
		case isIface(a.T) && isIface(b.T):
			// nil literal on either side: compare the type word only
			if cz, ok := x.Y.(*ssa.Const); ok && cz.Value == nil {
				eq = Eq(a.L[0], Zero)
			} else if cz, ok := x.X.(*ssa.Const); ok && cz.Value == nil {
				eq = Eq(b.L[0], Zero)
			} else {
				eq = And(Eq(a.L[0], b.L[0]), Eq(a.L[1], b.L[1]))
			}
		default:
			if len(a.L) != len(b.L) {
				panic("binop ==: shape mismatch")
			}
			var cs []Term
			for i := range a.L {
				cs = append(cs, GoEq(a.L[i], b.L[i]))
			}
			eq = And(cs...)
		}
		if op == token.NEQ {
			eq = Not(eq)
		}
		return scalar(t, eq)
	}
	at, bt := a.Leaf(), b.Leaf()
	switch {
	case at.Sort == SStr:
		switch op {
		case token.ADD:
			return scalar(t, App(SStr, "str.++", at, bt))
		case token.LSS:
			return scalar(t, App(SBool, "str.<", at, bt))
		case token.LEQ:
			return scalar(t, App(SBool, "str.<=", at, bt))
		case token.GTR:
			return scalar(t, App(SBool, "str.<", bt, at))
		case token.GEQ:
			return scalar(t, App(SBool, "str.<=", bt, at))
		}
	case at.Sort == SF64:
		switch op {
		case token.ADD:
			return scalar(t, App(SF64, "fp.add RNE", at, bt))
		case token.SUB:
			return scalar(t, App(SF64, "fp.sub RNE", at, bt))
		case token.MUL:
			return scalar(t, App(SF64, "fp.mul RNE", at, bt))
		case token.QUO:
			return scalar(t, App(SF64, "fp.div RNE", at, bt))
		case token.LSS:
			return scalar(t, App(SBool, "fp.lt", at, bt))
		case token.LEQ:
			return scalar(t, App(SBool, "fp.leq", at, bt))
		case token.GTR:
			return scalar(t, App(SBool, "fp.gt", at, bt))
		case token.GEQ:
			return scalar(t, App(SBool, "fp.geq", at, bt))
		}
	case at.Sort == SBool:
		switch op {
		case token.AND:
			return scalar(t, And(at, bt))
		case token.OR:
			return scalar(t, Or(at, bt))
		}
	case at.Sort == SInt:
		switch op {
		case token.ADD:
			r := Add(at, bt)
			e.overflowCheck(st, t, r, x.Pos())
			return scalar(t, r)
		case token.SUB:
			r := Sub(at, bt)
			e.overflowCheck(st, t, r, x.Pos())
			return scalar(t, r)
		case token.MUL:
			r := App(SInt, "*", at, bt)
			e.overflowCheck(st, t, r, x.Pos())
			return scalar(t, r)
		case token.QUO:
			what := e.eng.srcText(x.Pos())
			if !isLit(bt) || bt.S == "0" {
				e.oblige(st, "safety", "div0:"+what, Neq(bt, Zero), x.Pos(), nil, what)
				st.assert(Neq(bt, Zero))
			}
			return scalar(t, goDiv(at, bt))
		case token.REM:
			what := e.eng.srcText(x.Pos())
			if !isLit(bt) || bt.S == "0" {
				e.oblige(st, "safety", "div0:"+what, Neq(bt, Zero), x.Pos(), nil, what)
				st.assert(Neq(bt, Zero))
			}
			return scalar(t, goMod(at, bt))
		case token.LSS:
			return scalar(t, Lt(at, bt))
		case token.LEQ:
			return scalar(t, Le(at, bt))
		case token.GTR:
			return scalar(t, Gt(at, bt))
		case token.GEQ:
			return scalar(t, Ge(at, bt))
		case token.AND, token.OR, token.XOR, token.SHL, token.SHR, token.AND_NOT:
			e.note(st, "bitwise operator "+op.String()+" abstracted")
			return e.freshValue(st, t, "bitop")
		}
	}
	panic(fmt.Sprintf("binop %s on %s", op, at.Sort))
}

func (e *Exec) convert(st *State, x *ssa.Convert, v Value) Value {
	from, to := x.X.Type(), x.Type()
	switch {
	case isInteger(from) && isInteger(to):
		tb := to.Underlying().(*types.Basic)
		fb := from.Underlying().(*types.Basic)
		flo, fhi := intRange(fb)
		tlo, thi := intRange(tb)
		if !(flo == tlo && fhi == thi) && !isLit(v.Leaf()) {
			// narrowing or sign change: Go wraps silently; we require that no
			// wrap happens (so the mathematical value is preserved)
			what := e.eng.srcText(x.Pos())
			e.oblige(st, "safety", "convert:"+what, inRange(tb, v.Leaf()), x.Pos(), nil, what)
			st.assert(inRange(tb, v.Leaf()))
		}
		return scalar(to, v.Leaf())
	case isInteger(from) && isFloat(to):
		return scalar(to, App(SF64, "(_ to_fp 11 53) RNE", App(SReal, "to_real", v.Leaf())))
	case isFloat(from) && isFloat(to):
		return scalar(to, v.Leaf())
	case isFloat(from) && isInteger(to):
		e.note(st, "float->int conversion abstracted")
		return e.freshValue(st, to, "f2i")
	case isString(from) && isSlice(to): // []byte(s)
		r := e.alloc(st, "bytes")
		e.storeGhost(st, "bytes$str", SStr, r, v.Leaf())
		return mkSlice(to, r, Zero, App(SInt, "str.len", v.Leaf()))
	case isSlice(from) && isString(to): // string(b)
		s := e.freshConst("str.of.bytes", SStr)
		st.assert(Eq(App(SInt, "str.len", s), sliceLen(v)))
		// if the bytes came from a string and are used whole, it is that string
		src := e.loadGhost(st, "bytes$str", SStr, sliceBase(v))
		st.assert(Implies(And(Eq(sliceOff(v), Zero), Eq(sliceLen(v), App(SInt, "str.len", src)), Neq(sliceBase(v), Zero)), Eq(s, src)))
		return scalar(to, s)
	case isString(from) && isString(to):
		return scalar(to, v.Leaf())
	case isInteger(from) && isString(to):
		e.note(st, "int->string conversion abstracted")
		return e.freshValue(st, to, "i2s")
	}
	if len(flatten(from)) == len(flatten(to)) {
		v.T = to
		return v
	}
	panic(fmt.Sprintf("convert %v -> %v", from, to))
}

// pointerShaped: the dynamic value is itself the interface payload.
func pointerShaped(t types.Type) bool {
	switch t.Underlying().(type) {
	case *types.Pointer, *types.Map, *types.Chan, *types.Signature:
		return true
	}
	return false
}

func (e *Exec) makeInterface(st *State, it types.Type, v Value) Value {
	id := IntLit(int64(e.eng.typeID(v.T)))
	var payload Term
	if pointerShaped(v.T) {
		payload = v.L[0]
	} else {
		box := e.alloc(st, "box")
		p := &Place{Kind: PObj, Base: box, Typ: boxType(v.T)}
		e.storePlace(st, &Place{Kind: PField, Base: box, Root: p.Typ, Path: ".v", Typ: v.T}, v)
		payload = box
	}
	vv := v
	return Value{T: it, L: []Term{id, payload}, Dyn: v.T, DynV: &vv}
}

var boxTypes = map[string]types.Type{}

// boxType is the synthetic struct type whose field v holds a boxed value of type t.
func boxType(t types.Type) types.Type {
	k := typeKey(t)
	if bt, ok := boxTypes[k]; ok {
		return bt
	}
	st := types.NewStruct([]*types.Var{types.NewField(0, nil, "v", t, false)}, nil)
	bt := types.NewNamed(types.NewTypeName(0, nil, "box:"+k, nil), st, nil)
	boxTypes[k] = bt
	return bt
}

func (e *Exec) unbox(st *State, iv Value, t types.Type) Value {
	if iv.DynV != nil && types.Identical(iv.Dyn, t) {
		return *iv.DynV
	}
	if pointerShaped(t) {
		return Value{T: t, L: []Term{iv.L[1]}}
	}
	bt := boxType(t)
	v := e.loadPlace(st, &Place{Kind: PField, Base: iv.L[1], Root: bt, Path: ".v", Typ: t}, nil)
	e.assumeLoaded(st, v)
	return v
}

func (e *Exec) typeAssert(st *State, fr *Frame, x *ssa.TypeAssert) {
	iv := e.val(fr, x.X)
	at := x.AssertedType
	var ok Term
	var res Value
	if isIface(at) {
		// interface-to-interface: holds iff the dynamic type implements it
		if iv.Dyn != nil {
			ok = BoolLit(types.Implements(iv.Dyn, at.Underlying().(*types.Interface)))
		} else {
			fname := "impl." + smtName(typeKey(at))
			e.declareFun(fname, []Sort{SInt}, SBool)
			ok = And(Neq(iv.L[0], Zero), App(SBool, fname, iv.L[0]))
		}
		res = iv
		res.T = at
	} else {
		ok = Eq(iv.L[0], IntLit(int64(e.eng.typeID(at))))
		if iv.Dyn != nil {
			ok = BoolLit(types.Identical(iv.Dyn, at))
		}
		res = e.unbox(st, iv, at)
	}
	if x.CommaOk {
		z := zeroValue(at)
		out := Value{T: at, L: make([]Term, len(res.L)), P: res.P, Fn: res.Fn, Dyn: res.Dyn, DynV: res.DynV}
		for i := range res.L {
			out.L[i] = e.define(st, "ta", Ite(ok, res.L[i], z.L[i]))
		}
		fr.env[x] = Value{T: x.Type(), Tup: []Value{out, scalar(types.Typ[types.Bool], e.define(st, "ta.ok", ok))}}
		return
	}
	what := e.eng.srcText(x.Pos())
	e.oblige(st, "safety", "type-assert:"+what, ok, x.Pos(), nil, what)
	st.assert(ok)
	fr.env[x] = res
}

func (e *Exec) execSlice(st *State, fr *Frame, x *ssa.Slice) {
	base := e.val(fr, x.X)
	what := e.eng.srcText(x.Pos())
	var lo, hi Term
	lo = Zero
	if x.Low != nil {
		lo = e.val(fr, x.Low).Leaf()
	}
	switch u := base.T.Underlying().(type) {
	case *types.Basic: // string
		ln := App(SInt, "str.len", base.L[0])
		hi = ln
		if x.High != nil {
			hi = e.val(fr, x.High).Leaf()
		}
		e.oblige(st, "safety", "slice:"+what, And(Le(Zero, lo), Le(lo, hi), Le(hi, ln)), x.Pos(), nil, what)
		st.assert(And(Le(Zero, lo), Le(lo, hi), Le(hi, ln)))
		e.setVal(st, fr, x, scalar(x.Type(), App(SStr, "str.substr", base.L[0], lo, Sub(hi, lo))))
	case *types.Slice:
		hi = sliceLen(base)
		if x.High != nil {
			hi = e.val(fr, x.High).Leaf()
		}
		// (re-slicing up to cap is legal Go; this model requires hi <= len)
		e.oblige(st, "safety", "slice:"+what, And(Le(Zero, lo), Le(lo, hi), Le(hi, sliceLen(base))), x.Pos(), nil, what)
		st.assert(And(Le(Zero, lo), Le(lo, hi), Le(hi, sliceLen(base))))
		e.setVal(st, fr, x, mkSlice(x.Type(), sliceBase(base), Add(sliceOff(base), lo), Sub(hi, lo)))
	case *types.Pointer: // *array
		arr := u.Elem().Underlying().(*types.Array)
		bp := e.derefPlace(st, base, x.Pos(), what)
		hi = IntLit(arr.Len())
		if x.High != nil {
			hi = e.val(fr, x.High).Leaf()
		}
		if !(isLit(lo) && isLit(hi)) {
			e.oblige(st, "safety", "slice:"+what, And(Le(Zero, lo), Le(lo, hi), Le(hi, IntLit(arr.Len()))), x.Pos(), nil, what)
		}
		e.setVal(st, fr, x, mkSlice(x.Type(), bp.Base, lo, Sub(hi, lo)))
	default:
		panic("slice of " + base.T.String())
	}
}

// ---------------------------------------------------------------------------
// Maps: (dom: ref -> key -> Bool, val: ref -> key -> leaf)
// ---------------------------------------------------------------------------

func mapKeys(mt *types.Map) (domKey string, ksort Sort, ok bool) {
	kl := flatten(mt.Key())
	if len(kl) != 1 {
		return "", "", false
	}
	return "mapdom:" + typeKey(mt), kl[0].Sort, true
}

func (e *Exec) mapArr(st *State, key string, sort Sort, view *HeapView) Term {
	if t, ok := e.keySort[key]; ok && t != sort {
		panic("map key sort clash " + key)
	}
	e.keySort[key] = sort
	if view == nil {
		if t, ok := st.heap[key]; ok {
			return t
		}
		t := e.declare(h0Name(key, st.epoch), sort)
		st.heap[key] = t
		return t
	}
	if t, ok := view.m[key]; ok {
		return t
	}
	return e.declare(h0Name(key, view.epoch), sort)
}

func (e *Exec) mapInit(st *State, mt *types.Map, r Term) {
	dk, ks, ok := mapKeys(mt)
	if !ok {
		e.note(st, "map with composite key type "+typeKey(mt)+" abstracted")
		return
	}
	ds := ArrS(SInt, ArrS(ks, SBool))
	dom := e.mapArr(st, dk, ds, nil)
	e.setHeap(st, dk, Store(dom, r, constArr(ArrS(ks, SBool), False)))
}

func (e *Exec) mapLookup(st *State, m Value, k Value, view *HeapView) (Term, Value) {
	mt := m.T.Underlying().(*types.Map)
	dk, ks, ok := mapKeys(mt)
	if !ok {
		v := e.freshValue(st, mt.Elem(), "mapval")
		return e.freshConst("mapok", SBool), v
	}
	kt := k.L[0]
	if isIface(k.T) {
		kt = k.L[1]
	}
	dom := e.mapArr(st, dk, ArrS(SInt, ArrS(ks, SBool)), view)
	okT := And(Neq(m.L[0], Zero), Select(Select(dom, m.L[0]), kt))
	ls := flatten(mt.Elem())
	v := Value{T: mt.Elem(), L: make([]Term, len(ls))}
	for i, l := range ls {
		vk := "mapval:" + typeKey(mt) + l.Suffix
		arr := e.mapArr(st, vk, ArrS(SInt, ArrS(ks, l.Sort)), view)
		v.L[i] = Select(Select(arr, m.L[0]), kt)
		if strings.HasSuffix(l.Suffix, "#off") {
			v.L[i] = Zero // slices held in memory start at offset 0 (see loadPlace)
		}
	}
	return okT, v
}

func (e *Exec) mapStore(st *State, m Value, k Value, v Value) {
	mt := m.T.Underlying().(*types.Map)
	dk, ks, ok := mapKeys(mt)
	if !ok {
		return
	}
	kt := k.L[0]
	dom := e.mapArr(st, dk, ArrS(SInt, ArrS(ks, SBool)), nil)
	e.setHeap(st, dk, Store(dom, m.L[0], Store(Select(dom, m.L[0]), kt, True)))
	for i, l := range flatten(mt.Elem()) {
		vk := "mapval:" + typeKey(mt) + l.Suffix
		arr := e.mapArr(st, vk, ArrS(SInt, ArrS(ks, l.Sort)), nil)
		e.setHeap(st, vk, Store(arr, m.L[0], Store(Select(arr, m.L[0]), kt, v.L[i])))
	}
}

func (e *Exec) mapDelete(st *State, m Value, k Value) {
	mt := m.T.Underlying().(*types.Map)
	dk, ks, ok := mapKeys(mt)
	if !ok {
		return
	}
	dom := e.mapArr(st, dk, ArrS(SInt, ArrS(ks, SBool)), nil)
	e.setHeap(st, dk, Store(dom, m.L[0], Store(Select(dom, m.L[0]), k.L[0], False)))
}

func (e *Exec) execLookup(st *State, fr *Frame, x *ssa.Lookup) {
	m := e.val(fr, x.X)
	k := e.val(fr, x.Index)
	if isString(m.T) {
		idx := k.Leaf()
		what := e.eng.srcText(x.Pos())
		ln := App(SInt, "str.len", m.L[0])
		e.oblige(st, "safety", "index:"+what, And(Le(Zero, idx), Lt(idx, ln)), x.Pos(), nil, what)
		e.setVal(st, fr, x, scalar(x.Type(), App(SInt, "str.to_code", App(SStr, "str.at", m.L[0], idx))))
		return
	}
	ok, v := e.mapLookup(st, m, k, nil)
	mt := m.T.Underlying().(*types.Map)
	z := zeroValue(mt.Elem())
	out := Value{T: mt.Elem(), L: make([]Term, len(v.L))}
	for i := range v.L {
		out.L[i] = e.define(st, "lookup", Ite(ok, v.L[i], z.L[i]))
	}
	e.assumeLoaded(st, out)
	if x.CommaOk {
		fr.env[x] = Value{T: x.Type(), Tup: []Value{out, scalar(types.Typ[types.Bool], e.define(st, "lookup.ok", ok))}}
	} else {
		fr.env[x] = out
	}
}

// Range over a map: a ghost enumeration keys[0..n) of the domain, in an
// arbitrary (unconstrained) order; distinct and complete.
func (e *Exec) execRange(st *State, fr *Frame, x *ssa.Range) {
	m := e.val(fr, x.X)
	it := &iterState{m: m, pos: Zero}
	if isString(m.T) {
		it.str = true
		it.n = App(SInt, "str.len", m.L[0])
		e.note(st, "range over string: runes abstracted")
		fr.iters[x] = it
		fr.env[x] = Value{T: x.Type()}
		return
	}
	mt := m.T.Underlying().(*types.Map)
	dk, ks, ok := mapKeys(mt)
	if !ok {
		panic("range over map with composite key")
	}
	dom := e.mapArr(st, dk, ArrS(SInt, ArrS(ks, SBool)), nil)
	d := e.define(st, "rangedom", Select(dom, m.L[0]))
	it.keys = e.freshConst("rangekeys", ArrS(SInt, ks))
	it.n = e.freshConst("rangen", SInt)
	posOf := e.freshName("rangepos")
	e.declareFun(posOf, []Sort{ks}, SInt)
	st.assert(Le(Zero, it.n))
	st.assert(Implies(Eq(m.L[0], Zero), Eq(it.n, Zero)))
	// every enumerated key is in the domain; enumeration is injective; every domain key is enumerated
	st.assert(Term{fmt.Sprintf("(forall ((i Int)) (! (=> (and (<= 0 i) (< i %s)) (and (select %s (select %s i)) (= (%s (select %s i)) i))) :pattern ((select %s i))))", it.n.S, d.S, it.keys.S, posOf, it.keys.S, it.keys.S), SBool})
	st.assert(Term{fmt.Sprintf("(forall ((k %s)) (! (=> (select %s k) (and (<= 0 (%s k)) (< (%s k) %s) (= (select %s (%s k)) k))) :pattern ((select %s k))))", ks, d.S, posOf, posOf, it.n.S, it.keys.S, posOf, d.S), SBool})
	it.posOf = posOf
	it.dom = d
	fr.iters[x] = it
	fr.env[x] = Value{T: x.Type()}
}

func (e *Exec) execNext(st *State, fr *Frame, x *ssa.Next) {
	r := x.Iter.(*ssa.Range)
	it := fr.iters[r]
	tup := x.Type().(*types.Tuple)
	ok := e.define(st, "next.ok", Lt(it.pos, it.n))
	okV := scalar(types.Typ[types.Bool], ok)
	if it.str {
		fr.env[x] = Value{T: x.Type(), Tup: []Value{okV, scalar(tup.At(1).Type(), it.pos), e.freshValue(st, tup.At(2).Type(), "rune")}}
		it.pos = e.freshConst("strpos", SInt)
		return
	}
	mt := it.m.T.Underlying().(*types.Map)
	k := Value{T: mt.Key(), L: []Term{e.define(st, "next.k", Select(it.keys, it.pos))}}
	_, v := e.mapLookup(st, it.m, k, nil)
	for i := range v.L {
		v.L[i] = e.define(st, "next.v", v.L[i])
	}
	e.assumeLoaded(st, v)
	e.assumeLoaded(st, k)
	kv, vv := k, v
	if types.Identical(tup.At(1).Type(), types.Typ[types.Invalid]) {
		kv = Value{T: tup.At(1).Type()}
	}
	if types.Identical(tup.At(2).Type(), types.Typ[types.Invalid]) {
		vv = Value{T: tup.At(2).Type()}
	}
	fr.env[x] = Value{T: x.Type(), Tup: []Value{okV, kv, vv}}
	it.pos = e.define(st, "next.pos", Add(it.pos, One))
}
