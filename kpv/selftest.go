package main

import (
	"flag"
	"fmt"
	"os"
	"os/exec"
	"path/filepath"
	"sort"
	"strings"
)

// selftest: the must-fail corpus (/verif/selftest/mutants) and the
// must-not-fail corpus (/verif/selftest/neutral). Each patch is applied to a
// scratch copy of /repo outside /repo and /verif, checked, and removed.
//
// Patch header lines:
//
//	# property: C10
//	# expect: <substring of the obligation group that must fail>   (mutants)
func cmdSelftest(args []string) int {
	fs := flag.NewFlagSet("selftest", flag.ExitOnError)
	prop := fs.String("property", "", "only patches of this property")
	only := fs.String("only", "", "only patches whose file name contains this")
	fs.Parse(args)
	var files []string
	for _, d := range []string{"mutants", "neutral"} {
		m, _ := filepath.Glob(filepath.Join(verifDir, "selftest", d, "*.patch"))
		sort.Strings(m)
		files = append(files, m...)
	}
	bad := 0
	ran := 0
	for _, f := range files {
		if *only != "" && !strings.Contains(filepath.Base(f), *only) {
			continue
		}
		data, _ := os.ReadFile(f)
		var props, expects []string
		for _, l := range strings.Split(string(data), "\n") {
			if strings.HasPrefix(l, "# property:") {
				for _, p := range strings.Split(strings.TrimPrefix(l, "# property:"), ",") {
					props = append(props, strings.TrimSpace(p))
				}
			}
			if strings.HasPrefix(l, "# expect:") {
				expects = append(expects, strings.TrimSpace(strings.TrimPrefix(l, "# expect:")))
			}
		}
		neutral := strings.Contains(f, "/neutral/")
		if *prop != "" && !hasTag(props, *prop) && !(neutral && len(props) == 0) {
			continue
		}
		if *prop != "" {
			props = []string{*prop}
		}
		scratch, err := os.MkdirTemp("", "kpv-selftest-")
		if err != nil {
			fmt.Println("selftest:", err)
			return 3
		}
		run := func() (ok bool, msg string) {
			defer os.RemoveAll(scratch)
			if out, err := exec.Command("rsync", "-a", "--exclude", ".git", repoDir+"/", scratch+"/").CombinedOutput(); err != nil {
				return false, "rsync: " + string(out)
			}
			cmd := exec.Command("patch", "-p1", "-s", "-i", f)
			cmd.Dir = scratch
			if out, err := cmd.CombinedOutput(); err != nil {
				return false, "patch does not apply: " + string(out)
			}
			eng, err := loadEngine(scratch, verifDir)
			if err != nil {
				return false, "load: " + err.Error()
			}
			td, _ := os.MkdirTemp("", "kpv-smt-")
			eng.tmpdir = td
			defer os.RemoveAll(td)
			for _, p := range props {
				rep := eng.checkProperty(p, 10000, false, false)
				failed := map[string]bool{}
				for _, o := range rep.Failed {
					failed[o.Group] = true
				}
				for _, m := range rep.missing {
					failed["missing:"+m] = true
				}
				if neutral {
					if len(failed) > 0 || len(rep.EngineErrors) > 0 {
						return false, fmt.Sprintf("neutral change alarms %s: %v %v", p, keysOf(failed), rep.EngineErrors)
					}
					continue
				}
				if len(failed) == 0 {
					return false, fmt.Sprintf("mutant not detected by %s (engine errors: %v)", p, rep.EngineErrors)
				}
				for _, ex := range expects {
					found := false
					for g := range failed {
						if strings.Contains(g, ex) {
							found = true
						}
					}
					if !found {
						return false, fmt.Sprintf("mutant detected by %s but not at the expected obligation %q; failed: %v", p, ex, keysOf(failed))
					}
				}
			}
			return true, ""
		}
		ok, msg := run()
		ran++
		if ok {
			fmt.Printf("selftest ok   %s\n", filepath.Base(f))
		} else {
			fmt.Printf("selftest FAIL %s: %s\n", filepath.Base(f), msg)
			bad++
		}
	}
	fmt.Printf("selftest: %d patches, %d failures\n", ran, bad)
	if bad > 0 {
		return 1
	}
	return 0
}

func keysOf(m map[string]bool) []string {
	var out []string
	for k := range m {
		out = append(out, k)
	}
	sort.Strings(out)
	return out
}
