package main

import (
	"bytes"
	"fmt"
	"go/ast"
	"go/printer"
	"go/token"
	"go/types"
	"sort"
	"strings"
	"sync"

	"golang.org/x/tools/go/ast/astutil"
	"golang.org/x/tools/go/packages"
	"golang.org/x/tools/go/ssa"
	"golang.org/x/tools/go/ssa/ssautil"
)

type Engine struct {
	repo           string
	verif          string
	prog           *ssa.Program
	pkgs           []*packages.Package
	spkgs          map[string]*ssa.Package // by short name (server, cmd)
	fset           *token.FileSet
	specs          *Specs
	funcs          map[string]*ssa.Function // by key
	files          map[*token.File]*ast.File
	typeIDs        map[string]int
	typeByID       []types.Type
	errGlobals     map[*ssa.Global]int // immutable error globals -> unique id
	globalsWritten map[*ssa.Global]bool
	constGlobals   map[*ssa.Global]*ssa.Const // globals initialised once with a constant and never written again
	accessed       map[string][]*types.Var    // struct type key -> fields the repository reads or writes
	tier           string
	updatingLedger bool
	noRetry        map[string]bool // obligation groups recorded as known findings: expected to fail
	provedBefore   map[string]bool // obligation groups the ledger records as discharged on the unchanged tree
	quietMu        sync.Mutex
	quietLeft      int
	timeoutMs      int
	verbose        bool
	tmpdir         string
}

// fnKey is the stable, short name of a function used in contract files.
func fnKey(fn *ssa.Function) string {
	s := fn.String()
	s = strings.ReplaceAll(s, repoPrefix+"internal/", "")
	return s
}

func calleeKey(fn *ssa.Function) string {
	if o := fn.Origin(); o != nil {
		fn = o
	}
	return fnKey(fn)
}

func loadEngine(repo, verif string) (*Engine, error) {
	cfg := &packages.Config{Mode: packages.LoadAllSyntax, Dir: repo, BuildFlags: []string{"-tags=verif"}}
	pkgs, err := packages.Load(cfg, "./internal/server", "./internal/cmd")
	if err != nil {
		return nil, err
	}
	for _, p := range pkgs {
		if len(p.Errors) > 0 {
			return nil, fmt.Errorf("package %s does not build: %v", p.PkgPath, p.Errors[0])
		}
	}
	prog, spkgs := ssautil.AllPackages(pkgs, ssa.GlobalDebug)
	prog.Build()
	e := &Engine{repo: repo, verif: verif, prog: prog, pkgs: pkgs, spkgs: map[string]*ssa.Package{}, funcs: map[string]*ssa.Function{},
		files: map[*token.File]*ast.File{}, typeIDs: map[string]int{}, typeByID: []types.Type{nil},
		errGlobals: map[*ssa.Global]int{}, globalsWritten: map[*ssa.Global]bool{}, constGlobals: map[*ssa.Global]*ssa.Const{}}
	e.fset = prog.Fset
	for i, sp := range spkgs {
		if sp == nil {
			continue
		}
		e.spkgs[sp.Pkg.Name()] = sp
		for _, f := range pkgs[i].Syntax {
			e.files[e.fset.File(f.Pos())] = f
		}
	}
	for fn := range ssautil.AllFunctions(prog) {
		if fn.Pkg != nil && isRepoPkg(fn.Pkg.Pkg) {
			e.funcs[fnKey(fn)] = fn
		}
	}
	e.scanGlobals()
	e.scanAccessedFields()
	sp, err := loadAllSpecs(repo, verif)
	if err != nil {
		return nil, err
	}
	e.specs = sp
	for _, k := range sp.Immutable {
		immutableKeys[k] = true
	}
	return e, nil
}

// scanGlobals finds package-level error variables initialised once with
// errors.New / fmt.Errorf in init and never stored to again: these are
// constants, pairwise distinct and non-nil.
func (e *Engine) scanGlobals() {
	inits := map[*ssa.Global]int{}
	for _, fn := range e.funcs {
		for _, b := range fn.Blocks {
			for _, in := range b.Instrs {
				st, ok := in.(*ssa.Store)
				if !ok {
					continue
				}
				g, ok := st.Addr.(*ssa.Global)
				if !ok {
					continue
				}
				if fn.Name() == "init" && fn.Parent() == nil {
					inits[g]++
					if c, ok := st.Val.(*ssa.Call); ok {
						if sc := c.Call.StaticCallee(); sc != nil && (sc.String() == "errors.New") && inits[g] == 1 {
							e.errGlobals[g] = 0
							continue
						}
					}
					delete(e.errGlobals, g)
					// constant initialiser, possibly through a type conversion
					val := st.Val
					for {
						if ct, ok := val.(*ssa.ChangeType); ok {
							val = ct.X
							continue
						}
						if cv, ok := val.(*ssa.Convert); ok {
							val = cv.X
							continue
						}
						break
					}
					if c, ok := val.(*ssa.Const); ok && inits[g] == 1 && c.Value != nil {
						e.constGlobals[g] = c
					} else {
						delete(e.constGlobals, g)
					}
				} else {
					e.globalsWritten[g] = true
				}
			}
		}
	}
	for g := range e.constGlobals {
		if e.globalsWritten[g] || inits[g] != 1 {
			delete(e.constGlobals, g)
		}
	}
	var gs []*ssa.Global
	for g := range e.errGlobals {
		if e.globalsWritten[g] || inits[g] != 1 {
			delete(e.errGlobals, g)
			continue
		}
		gs = append(gs, g)
	}
	sort.Slice(gs, func(i, j int) bool { return gs[i].String() < gs[j].String() })
	for i, g := range gs {
		e.errGlobals[g] = i + 1
	}
}

// scanAccessedFields records, per struct type, the fields that any repository
// function addresses. A shallow struct copy (e.g. Request.WithContext) copies
// exactly these heap arrays.
func (e *Engine) scanAccessedFields() {
	e.accessed = map[string][]*types.Var{}
	seen := map[string]bool{}
	add := func(t types.Type, i int) {
		st, ok := t.Underlying().(*types.Struct)
		if !ok {
			return
		}
		k := typeKey(t)
		f := st.Field(i)
		if seen[k+"."+f.Name()] {
			return
		}
		seen[k+"."+f.Name()] = true
		e.accessed[k] = append(e.accessed[k], f)
	}
	var keys []string
	for k := range e.funcs {
		keys = append(keys, k)
	}
	sort.Strings(keys)
	for _, k := range keys {
		fn := e.funcs[k]
		for _, b := range fn.Blocks {
			for _, in := range b.Instrs {
				switch x := in.(type) {
				case *ssa.FieldAddr:
					add(x.X.Type().Underlying().(*types.Pointer).Elem(), x.Field)
				case *ssa.Field:
					add(x.X.Type(), x.Field)
				}
			}
		}
	}
}

func (e *Engine) typeID(t types.Type) int {
	k := typeKey(t)
	if id, ok := e.typeIDs[k]; ok {
		return id
	}
	id := len(e.typeByID)
	e.typeIDs[k] = id
	e.typeByID = append(e.typeByID, t)
	return id
}

// srcText returns the source text of the innermost expression at pos.
func (e *Engine) srcText(pos token.Pos) string {
	if !pos.IsValid() {
		return ""
	}
	tf := e.fset.File(pos)
	f := e.files[tf]
	if f == nil {
		return ""
	}
	path, _ := astutil.PathEnclosingInterval(f, pos, pos)
	for _, n := range path {
		switch n.(type) {
		case ast.Expr:
			var b bytes.Buffer
			printer.Fprint(&b, e.fset, n)
			s := strings.Join(strings.Fields(b.String()), " ")
			if len(s) > 70 {
				s = s[:70]
			}
			return s
		case ast.Stmt:
			var b bytes.Buffer
			printer.Fprint(&b, e.fset, n)
			s := strings.Join(strings.Fields(b.String()), " ")
			if len(s) > 50 {
				s = s[:50]
			}
			return s
		}
	}
	return ""
}

func (e *Engine) posString(pos token.Pos) string {
	if !pos.IsValid() {
		return "-"
	}
	p := e.fset.Position(pos)
	return fmt.Sprintf("%s:%d", strings.TrimPrefix(p.Filename, e.repo+"/"), p.Line)
}

// ---------------------------------------------------------------------------
// Loops
// ---------------------------------------------------------------------------

type loopInfo struct {
	head    *ssa.BasicBlock
	body    map[*ssa.BasicBlock]bool
	ordinal int
}

// findLoops returns the natural loops of fn keyed by head block index,
// numbered 1.. in order of head position.
func findLoops(fn *ssa.Function) map[int]*loopInfo {
	loops := map[int]*loopInfo{}
	for _, b := range fn.Blocks {
		for _, s := range b.Succs {
			if s.Dominates(b) { // back edge b -> s
				li := loops[s.Index]
				if li == nil {
					li = &loopInfo{head: s, body: map[*ssa.BasicBlock]bool{s: true}}
					loops[s.Index] = li
				}
				// collect natural loop
				stack := []*ssa.BasicBlock{b}
				for len(stack) > 0 {
					x := stack[len(stack)-1]
					stack = stack[:len(stack)-1]
					if li.body[x] {
						continue
					}
					li.body[x] = true
					stack = append(stack, x.Preds...)
				}
			}
		}
	}
	var heads []int
	for h := range loops {
		heads = append(heads, h)
	}
	sort.Ints(heads)
	for i, h := range heads {
		loops[h].ordinal = i + 1
	}
	return loops
}
