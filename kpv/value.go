package main

import (
	"fmt"
	"go/types"
	"strings"

	"golang.org/x/tools/go/ssa"
)

type LeafKind int

const (
	KInt LeafKind = iota // machine integer, modelled as Int with explicit range
	KRef                 // reference (pointer, map, chan, func, slice base, iface payload): Int, 0 = nil
	KBool
	KStr
	KF64
	KOpq // opaque Int
)

type Leaf struct {
	Suffix string
	Sort   Sort
	Kind   LeafKind
	Basic  *types.Basic // for KInt: which integer type (range)
}

const repoPrefix = "github.com/basecamp/kamal-proxy/"

func isRepoPkg(p *types.Package) bool {
	return p != nil && strings.HasPrefix(p.Path(), repoPrefix)
}

// typeKey is the stable name of a type used in heap keys.
func typeKey(t types.Type) string {
	t = types.Unalias(t)
	switch tt := t.(type) {
	case *types.Named:
		o := tt.Obj()
		if o.Pkg() == nil {
			return o.Name()
		}
		p := o.Pkg().Path()
		p = strings.TrimPrefix(p, repoPrefix+"internal/")
		s := p + "." + o.Name()
		if ta := tt.TypeArgs(); ta != nil && ta.Len() > 0 {
			parts := []string{}
			for i := 0; i < ta.Len(); i++ {
				parts = append(parts, typeKey(ta.At(i)))
			}
			s += "[" + strings.Join(parts, ",") + "]"
		}
		return s
	case *types.Pointer:
		return "*" + typeKey(tt.Elem())
	case *types.Slice:
		return "[]" + typeKey(tt.Elem())
	case *types.Array:
		return fmt.Sprintf("[%d]%s", tt.Len(), typeKey(tt.Elem()))
	case *types.Map:
		return "map[" + typeKey(tt.Key()) + "]" + typeKey(tt.Elem())
	case *types.Chan:
		return "chan " + typeKey(tt.Elem())
	case *types.Basic:
		return tt.Name()
	}
	return types.TypeString(t, func(p *types.Package) string {
		return strings.TrimPrefix(p.Path(), repoPrefix+"internal/")
	})
}

// transparentStruct reports whether values of struct type t are flattened
// field by field. Structs declared outside the repository are opaque when
// handled *by value*; their fields are still addressable one by one through
// pointers (FieldAddr), which is how the repository uses them.
func transparentStruct(t types.Type) bool {
	t = types.Unalias(t)
	if n, ok := t.(*types.Named); ok {
		if _, ok := n.Underlying().(*types.Struct); !ok {
			return false
		}
		return isRepoPkg(n.Obj().Pkg())
	}
	_, ok := t.(*types.Struct)
	return ok
}

var flattenCache = map[types.Type][]Leaf{}

func flatten(t types.Type) []Leaf {
	if l, ok := flattenCache[t]; ok {
		return l
	}
	l := flatten0(t)
	flattenCache[t] = l
	return l
}

func flatten0(t types.Type) []Leaf {
	t = types.Unalias(t)
	switch u := t.Underlying().(type) {
	case *types.Basic:
		info := u.Info()
		switch {
		case info&types.IsBoolean != 0:
			return []Leaf{{"", SBool, KBool, nil}}
		case info&types.IsInteger != 0:
			return []Leaf{{"", SInt, KInt, u}}
		case info&types.IsString != 0:
			return []Leaf{{"", SStr, KStr, nil}}
		case u.Kind() == types.Float64 || u.Kind() == types.UntypedFloat:
			return []Leaf{{"", SF64, KF64, nil}}
		case u.Kind() == types.UnsafePointer || u.Kind() == types.UntypedNil:
			return []Leaf{{"", SInt, KRef, nil}}
		}
		return []Leaf{{"#opq", SInt, KOpq, nil}}
	case *types.Pointer, *types.Chan, *types.Map, *types.Signature:
		return []Leaf{{"", SInt, KRef, nil}}
	case *types.Interface:
		return []Leaf{{"#ityp", SInt, KOpq, nil}, {"#ival", SInt, KRef, nil}}
	case *types.Slice:
		return []Leaf{{"#base", SInt, KRef, nil}, {"#off", SInt, KOpq, nil}, {"#len", SInt, KOpq, nil}}
	case *types.Struct:
		if !transparentStruct(t) {
			return []Leaf{{"#opq", SInt, KOpq, nil}}
		}
		var out []Leaf
		for i := 0; i < u.NumFields(); i++ {
			f := u.Field(i)
			for _, l := range flatten(f.Type()) {
				l.Suffix = "." + f.Name() + l.Suffix
				out = append(out, l)
			}
		}
		return out
	case *types.Tuple:
		panic("flatten of tuple")
	}
	return []Leaf{{"#opq", SInt, KOpq, nil}}
}

// fieldLeafRange returns the [lo,hi) range of leaves occupied by field i in
// the flattening of struct type st (which must be transparent).
func fieldLeafRange(st *types.Struct, i int) (int, int) {
	lo := 0
	for j := 0; j < i; j++ {
		lo += len(flatten(st.Field(j).Type()))
	}
	return lo, lo + len(flatten(st.Field(i).Type()))
}

type PlaceKind int

const (
	PObj PlaceKind = iota
	PField
	PElem
	PGlobal
)

// Place is a statically known memory location: where a pointer points.
type Place struct {
	Kind PlaceKind
	Base Term       // object ref (PObj, PField), backing array ref (PElem)
	Root types.Type // PField: the struct type the path starts from
	Path string     // PField: ".a.b"
	Idx  Term       // PElem
	Typ  types.Type // type of the location
	Glob *ssa.Global
}

func (p *Place) String() string {
	switch p.Kind {
	case PObj:
		return fmt.Sprintf("obj(%s:%s)", p.Base.S, typeKey(p.Typ))
	case PField:
		return fmt.Sprintf("%s%s@%s", typeKey(p.Root), p.Path, p.Base.S)
	case PElem:
		return fmt.Sprintf("elem(%s)[%s]", p.Base.S, p.Idx.S)
	case PGlobal:
		return "global " + p.Glob.Name()
	}
	return "?"
}

// FnVal is a statically known function value.
type FnVal struct {
	Fn   *ssa.Function
	Bind []Value
}

// Value is a Go value during symbolic execution: a flat vector of SMT leaves
// laid out by flatten(T), plus static knowledge the executor keeps on the side.
type Value struct {
	T    types.Type
	L    []Term
	P    *Place     // pointers: the place pointed to, when statically known
	Fn   *FnVal     // functions: the closure, when statically known
	Dyn  types.Type // interfaces: dynamic type, when statically known
	DynV *Value     // interfaces: the value inside, when statically known
	Tup  []Value    // tuples
}

func (v Value) Leaf() Term {
	if len(v.L) != 1 {
		panic(fmt.Sprintf("Leaf(): value of type %v has %d leaves", v.T, len(v.L)))
	}
	return v.L[0]
}

func scalar(t types.Type, tm Term) Value { return Value{T: t, L: []Term{tm}} }

// zeroValue is the Go zero value of type t.
func zeroValue(t types.Type) Value {
	ls := flatten(t)
	v := Value{T: t, L: make([]Term, len(ls))}
	for i, l := range ls {
		v.L[i] = zeroOf(l.Sort)
	}
	return v
}

// fieldOf extracts field i of a transparent struct value.
func fieldOf(v Value, i int) Value {
	st := v.T.Underlying().(*types.Struct)
	if !transparentStruct(v.T) {
		panic("fieldOf on opaque struct " + typeKey(v.T))
	}
	lo, hi := fieldLeafRange(st, i)
	return Value{T: st.Field(i).Type(), L: v.L[lo:hi]}
}

func isSlice(t types.Type) bool { _, ok := t.Underlying().(*types.Slice); return ok }
func isIface(t types.Type) bool { _, ok := t.Underlying().(*types.Interface); return ok }
func isString(t types.Type) bool {
	b, ok := t.Underlying().(*types.Basic)
	return ok && b.Info()&types.IsString != 0
}
func isPointer(t types.Type) bool { _, ok := t.Underlying().(*types.Pointer); return ok }
func isMap(t types.Type) bool     { _, ok := t.Underlying().(*types.Map); return ok }
func isFloat(t types.Type) bool {
	b, ok := t.Underlying().(*types.Basic)
	return ok && b.Info()&types.IsFloat != 0
}
func isInteger(t types.Type) bool {
	b, ok := t.Underlying().(*types.Basic)
	return ok && b.Info()&types.IsInteger != 0
}
func isBool(t types.Type) bool {
	b, ok := t.Underlying().(*types.Basic)
	return ok && b.Info()&types.IsBoolean != 0
}

func sliceBase(v Value) Term { return v.L[0] }
func sliceOff(v Value) Term  { return v.L[1] }
func sliceLen(v Value) Term  { return v.L[2] }

func mkSlice(t types.Type, base, off, ln Term) Value {
	return Value{T: t, L: []Term{base, off, ln}}
}

// intRange returns the inclusive bounds of a Go integer type on linux/amd64.
func intRange(b *types.Basic) (lo, hi string) {
	switch b.Kind() {
	case types.Int8:
		return "(- 128)", "127"
	case types.Int16:
		return "(- 32768)", "32767"
	case types.Int32:
		return "(- 2147483648)", "2147483647"
	case types.Int, types.Int64, types.UntypedInt, types.UntypedRune:
		return "(- 9223372036854775808)", "9223372036854775807"
	case types.Uint8:
		return "0", "255"
	case types.Uint16:
		return "0", "65535"
	case types.Uint32:
		return "0", "4294967295"
	case types.Uint, types.Uint64, types.Uintptr:
		return "0", "18446744073709551615"
	}
	return "", ""
}

func inRange(b *types.Basic, t Term) Term {
	lo, hi := intRange(b)
	if lo == "" {
		return True
	}
	return And(Le(Term{lo, SInt}, t), Le(t, Term{hi, SInt}))
}
