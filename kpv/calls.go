package main

import (
	"fmt"
	"go/token"
	"go/types"
	"strings"

	"golang.org/x/tools/go/ssa"
)

func (e *Exec) emit(st *State, ev Event) {
	st.trace = append(st.trace, ev)
	if !ev.Deep && e.disc == nil {
		if ev.MayLoop != nil {
			for _, n := range ev.MayLoop {
				e.seenEvents[n] = true
			}
		} else {
			e.seenEvents[ev.Name] = true
		}
	}
}

// callInfo describes a resolved call.
type callInfo struct {
	fn     *ssa.Function // static target, if any
	key    string        // contract key
	args   []Value       // receiver first
	bind   []Value
	sig    *types.Signature
	pos    token.Pos
	what   string
	common *ssa.CallCommon
}

func sigOfCommon(c *ssa.CallCommon) *types.Signature {
	return c.Signature()
}

func namedFuncTypeKey(t types.Type) string {
	t = types.Unalias(t)
	if n, ok := t.(*types.Named); ok {
		return "dyn " + typeKey(n)
	}
	return "dyn " + types.TypeString(t, nil)
}

// resolve finds what a call instruction calls on this path.
func (e *Exec) resolve(st *State, fr *Frame, c *ssa.CallCommon, fnv Value, args []Value) *callInfo {
	ci := &callInfo{sig: c.Signature(), pos: c.Pos(), common: c}
	ci.what = e.eng.srcText(c.Pos())
	if c.IsInvoke() {
		recv := fnv
		if recv.Dyn != nil {
			ms := e.eng.prog.MethodSets.MethodSet(recv.Dyn)
			sel := ms.Lookup(c.Method.Pkg(), c.Method.Name())
			if sel != nil {
				if m := e.eng.prog.MethodValue(sel); m != nil {
					ci.fn = m
					ci.key = calleeKey(m)
					ci.args = append([]Value{e.unbox(st, recv, recv.Dyn)}, args...)
					return ci
				}
			}
		}
		ci.key = "iface " + typeKey(c.Value.Type()) + "." + c.Method.Name()
		ci.args = append([]Value{recv}, args...)
		return ci
	}
	if sc := c.StaticCallee(); sc != nil {
		ci.fn = sc
		ci.key = calleeKey(sc)
		ci.args = args
		if fnv.Fn != nil {
			ci.bind = fnv.Fn.Bind
		}
		return ci
	}
	if fnv.Fn != nil {
		ci.fn = fnv.Fn.Fn
		ci.key = calleeKey(fnv.Fn.Fn)
		ci.bind = fnv.Fn.Bind
		ci.args = args
		return ci
	}
	ci.key = namedFuncTypeKey(c.Value.Type())
	ci.args = append([]Value{fnv}, args...)
	return ci
}

// execCall handles *ssa.Call. retTo is the value to bind.
func (e *Exec) execCall(st *State, fr *Frame, instr ssa.Instruction, c *ssa.CallCommon, retTo ssa.Value, mode int) ([]*State, bool) {
	if b, ok := c.Value.(*ssa.Builtin); ok {
		var args []Value
		for _, a := range c.Args {
			args = append(args, e.val(fr, a))
		}
		res, panics := e.builtin(st, fr, b, args, c)
		if panics {
			return e.doPanic(st, c.Pos())
		}
		if retTo != nil {
			res.T = retTo.Type()
			if len(res.Tup) == 0 {
				e.setVal(st, fr, retTo, res)
			} else {
				fr.env[retTo] = res
			}
		}
		fr.pc++
		return nil, true
	}
	fnv := e.val(fr, c.Value)
	var args []Value
	for _, a := range c.Args {
		args = append(args, e.val(fr, a))
	}
	ci := e.resolve(st, fr, c, fnv, args)
	return e.dispatch(st, fr, ci, retTo, mode)
}

func (e *Exec) execDeferred(st *State, fr *Frame, d Deferred) ([]*State, bool) {
	c := d.Common
	if b, ok := c.Value.(*ssa.Builtin); ok {
		_, panics := e.builtin(st, fr, b, d.Args, c)
		if panics {
			return e.doPanic(st, c.Pos())
		}
		if fr.panicking {
			return e.unwind(st, d.Pos)
		}
		if fr.recovered {
			return e.resumeRecovered(st, fr, d.Pos)
		}
		return nil, true
	}
	ci := e.resolve(st, fr, c, d.Fn, d.Args)
	return e.dispatch(st, fr, ci, nil, 1)
}

// afterCall continues the caller after a call that did not push a frame.
func (e *Exec) afterCall(st *State, fr *Frame, retTo ssa.Value, res Value, mode int) ([]*State, bool) {
	if retTo != nil {
		res.T = retTo.Type()
		fr.env[retTo] = res
	}
	switch mode {
	case 0, 2:
		fr.pc++
		return nil, true
	case 3:
		return e.seqReturned(st, fr)
	case 1:
		if fr.panicking {
			return e.unwind(st, token.NoPos)
		}
		if fr.recovered {
			return e.resumeRecovered(st, fr, token.NoPos)
		}
		return nil, true // re-run RunDefers
	}
	return nil, true
}

func onStack(st *State, fn *ssa.Function) bool {
	for _, f := range st.frames {
		if f.fn == fn {
			return true
		}
	}
	return false
}

// performConcurrently models server.PerformConcurrently(fns...) when the
// closures are statically known: each closure runs to completion starting at
// the same instant (other goroutines, including the sibling closures, interfere
// in between), and the call returns when the slowest one has finished.
func (e *Exec) performConcurrently(st *State, fr *Frame, ci *callInfo, retTo ssa.Value, mode int) ([]*State, bool, bool) {
	vals, ok := e.variadicArgs(st, ci.args[0])
	if !ok {
		return nil, false, false
	}
	sc := &seqCalls{startNow: st.now, maxNow: st.now, retTo: retTo, mode: mode}
	for _, v := range vals {
		if v.Fn == nil {
			return nil, false, false
		}
		sc.fns = append(sc.fns, v.Fn)
	}
	e.modelled["server.PerformConcurrently (fork/join of its statically known arguments; the helper's own 9-line body is covered by the lock/safety sweep only)"] = true
	e.blockingPoint(st, ci.pos, "PerformConcurrently")
	fr.seq = sc
	succ, cont := e.nextSeq(st, fr)
	return succ, cont, true
}

func (e *Exec) nextSeq(st *State, fr *Frame) ([]*State, bool) {
	sc := fr.seq
	if sc.idx >= len(sc.fns) {
		st.now = sc.maxNow
		fr.seq = nil
		return e.afterCall(st, fr, sc.retTo, Value{}, sc.mode)
	}
	f := sc.fns[sc.idx]
	st.now = sc.startNow
	if sc.idx > 0 {
		e.interfere(st)
	}
	ci := &callInfo{fn: f.Fn, key: calleeKey(f.Fn), bind: f.Bind, sig: f.Fn.Signature}
	return e.dispatch(st, fr, ci, nil, 3)
}

func (e *Exec) seqReturned(st *State, fr *Frame) ([]*State, bool) {
	sc := fr.seq
	sc.maxNow = e.define(st, "pc.max", Ite(Ge(st.now, sc.maxNow), st.now, sc.maxNow))
	sc.idx++
	return e.nextSeq(st, fr)
}

// publish marks every reference reachable as a leaf of v as handed out.
func (e *Exec) publish(st *State, v Value) {
	for _, l := range v.L {
		if st.fresh[l.S] {
			st.published[l.S] = true
		}
	}
	if v.P != nil && st.fresh[v.P.Base.S] {
		st.published[v.P.Base.S] = true
	}
	if v.Fn != nil {
		for _, b := range v.Fn.Bind {
			e.publish(st, b)
		}
	}
	if v.DynV != nil {
		e.publish(st, *v.DynV)
	}
}

func (e *Exec) dispatch(st *State, fr *Frame, ci *callInfo, retTo ssa.Value, mode int) ([]*State, bool) {
	if (ci.key == "slices.ContainsFunc" || ci.key == "slices.IndexFunc") && len(ci.args) == 2 && ci.args[1].Fn != nil && isSlice(ci.args[0].T) {
		// slices.ContainsFunc(s, pred) with a statically known, loop-free,
		// effect-free predicate: pred is evaluated once on a symbolic element
		// and the result is "some element satisfies it" (ContainsFunc) or the
		// least such index (IndexFunc).
		if body, x, ok := e.summarizePredicate(st, ci.args[1].Fn, ci.args[0]); ok {
			e.modelled[ci.key+" (predicate summarised)"] = true
			sl := ci.args[0]
			el := sl.T.Underlying().(*types.Slice).Elem()
			arr := e.cur(st, "elem:"+typeKey(el), flatten(el)[0].Sort, true)
			at := func(i Term) Term {
				return Term{strings.ReplaceAll(body.S, x.S, Select(Select(arr, sliceBase(sl)), Add(sliceOff(sl), i)).S), SBool}
			}
			q := Term{e.freshName("q.cf"), SInt}
			rng := And(Le(Zero, q), Lt(q, sliceLen(sl)))
			if ci.key == "slices.ContainsFunc" {
				r := e.freshConst("containsfunc", SBool)
				st.assert(Term{fmt.Sprintf("(= %s (exists ((%s Int)) (and %s %s)))", r.S, q.S, rng.S, at(q).S), SBool})
				return e.afterCall(st, fr, retTo, scalar(tBool, r), mode)
			}
			r := e.freshConst("indexfunc", SInt)
			st.assert(Or(Eq(r, IntLit(-1)), And(Le(Zero, r), Lt(r, sliceLen(sl)), at(r))))
			st.assert(Term{fmt.Sprintf("(forall ((%s Int)) (=> (and %s (or (= %s (- 1)) (< %s %s))) (not %s)))", q.S, rng.S, r.S, q.S, r.S, at(q).S), SBool})
			return e.afterCall(st, fr, retTo, scalar(tInt, r), mode)
		}
	}
	if ci.key == "(*sync.Once).Do" && len(ci.args) == 2 && ci.args[1].Fn != nil {
		// sync.Once: the function runs on the first call only
		e.modelled["(*sync.Once).Do"] = true
		o := ci.args[0].L[0]
		if ci.args[0].P != nil {
			o = App(SInt, "fptr", ci.args[0].P.Base, IntLit(int64(e.pathID(placeKeyOnly(ci.args[0].P)))))
			e.declareFun("fptr", []Sort{SInt, SInt}, SInt)
		}
		done := e.define(st, "once.done", e.loadGhost(st, "onceDone", SBool, o))
		var out []*State
		s1 := st.clone()
		s1.pathID = e.newPathID()
		s1.assert(done)
		s1.pcs = append(s1.pcs, e.eng.posString(ci.pos)+": sync.Once already done")
		if ss, cont := e.afterCall(s1, s1.top(), retTo, Value{}, mode); cont {
			out = append(out, s1)
		} else {
			out = append(out, ss...)
		}
		st.assert(Not(done))
		st.pcs = append(st.pcs, e.eng.posString(ci.pos)+": sync.Once first call")
		e.storeGhost(st, "onceDone", SBool, o, True)
		f := ci.args[1].Fn
		ci2 := &callInfo{fn: f.Fn, key: calleeKey(f.Fn), bind: f.Bind, sig: f.Fn.Signature, pos: ci.pos, what: ci.what}
		ss, cont := e.dispatch(st, fr, ci2, retTo, mode)
		if cont {
			out = append(out, st)
		} else {
			out = append(out, ss...)
		}
		return out, false
	}
	if ci.key == "server.PerformConcurrently" && fr.seq == nil {
		if succ, cont, ok := e.performConcurrently(st, fr, ci, retTo, mode); ok {
			return succ, cont
		}
	}
	// 1. engine intrinsics (locks, pure string functions, logging)
	if res, ok, panics := e.intrinsic(st, fr, ci); ok {
		if panics {
			return e.doPanic(st, ci.pos)
		}
		return e.afterCall(st, fr, retTo, res, mode)
	}
	// 2. contract (own or assumed)
	if c := e.eng.specs.Funcs[ci.key]; c != nil && !(e.top != nil && e.top.inlineSelf && ci.fn == e.fn) && !e.forcedInline(ci.key) {
		for _, a := range ci.args {
			e.publish(st, a)
		}
		for _, a := range ci.bind {
			e.publish(st, a)
		}
		succ := e.applyContract(st, fr, ci, c, retTo, mode)
		return succ, false
	}
	// 3. inline repository functions (and synthetic wrappers)
	foreignInstance := ci.fn != nil && ci.fn.Origin() != nil && !isRepoPkg(pkgOf(ci.fn.Origin())) // instance of a library generic: its body works on type parameters
	if ci.fn != nil && len(ci.fn.Blocks) > 0 && (isRepoPkg(pkgOf(ci.fn)) || ci.fn.Synthetic != "") && !foreignInstance && len(st.frames) < maxInlineDepth && !onStack(st, ci.fn) {
		e.inlined[fnKey(ci.fn)] = true
		nf := e.newFrame(st, ci.fn, ci.args, ci.bind)
		nf.retTo = retTo
		nf.retMode = mode
		st.frames = append(st.frames, nf)
		if !e.enterFirst(st) {
			return nil, false
		}
		return []*State{st}, false
	}
	// 4. unknown call
	for _, a := range ci.args {
		e.publish(st, a)
	}
	res := e.unknownCall(st, ci, retTo)
	return e.afterCall(st, fr, retTo, res, mode)
}

func pkgOf(fn *ssa.Function) *types.Package {
	if fn.Pkg != nil {
		return fn.Pkg.Pkg
	}
	if fn.Parent() != nil {
		return pkgOf(fn.Parent())
	}
	if o := fn.Object(); o != nil {
		return o.Pkg()
	}
	return nil
}

func (e *Exec) newFrame(st *State, fn *ssa.Function, args []Value, bind []Value) *Frame {
	nf := &Frame{fn: fn, env: map[ssa.Value]Value{}, loops: map[int]*loopEntry{}, names: map[string]ssa.Value{}, iters: map[ssa.Value]*iterState{}, bind: bind, depth: len(st.frames)}
	if len(args) != len(fn.Params) {
		panic(fmt.Sprintf("call of %s with %d args, wants %d", fn, len(args), len(fn.Params)))
	}
	for i, p := range fn.Params {
		v := args[i]
		v.T = p.Type()
		nf.env[p] = v
	}
	return nf
}

func (e *Exec) enterFirst(st *State) bool {
	fr := st.top()
	fr.block = nil
	b := fr.fn.Blocks[0]
	fr.block = b
	fr.pc = 0
	if li := e.loops(fr.fn)[0]; li != nil {
		// a loop whose head is the entry block: treat via enter()
		fr.block = nil
		return e.enter(st, b)
	}
	return true
}

func (e *Exec) unknownCall(st *State, ci *callInfo, retTo ssa.Value) Value {
	name := ci.key
	if e.pureUnknown(ci) {
		e.usedAssumed["blanket: "+name+" (reads its arguments only, no observable effect)"] = true
	} else {
		e.abstractions["unknown call "+name+": heap havocked, Unknown event"] = true
		e.havocAll(st)
		nt := e.freshConst("top.unk", SInt)
		st.assert(Ge(nt, st.allocTop))
		st.allocTop = nt
		st.epochTop = nt
		e.assumeGlobalInv(st)
		e.emit(st, Event{Name: "Unknown", MayLoop: []string{"*"}, Deep: true, Pos: ci.pos})
	}
	if retTo == nil {
		return Value{}
	}
	return e.freshValue(st, retTo.Type(), "unk."+shortName(name))
}

func shortName(k string) string {
	if i := strings.LastIndex(k, "."); i >= 0 {
		return k[i+1:]
	}
	return k
}

// pureUnknown: externals covered by the blanket contract "reads its arguments,
// writes nothing the program can observe, emits nothing" (logging, formatting).
func (e *Exec) pureUnknown(ci *callInfo) bool {
	k := ci.key
	for _, p := range []string{"log/slog.", "(*log/slog.Logger).", "fmt.Sprintf", "fmt.Errorf", "fmt.Sprint", "errors.New", "(*log/slog", "log/slog", "strconv.", "strings.", "path.Join", "net/http.StatusText", "time.Since", "time.Now", "(time.Duration).", "(time.Time).", "encoding/hex.", "net/http.CanonicalHeaderKey", "(net/http.Header).Get", "(net/http.Header).Values", "slices.", "maps.", "cmp.", "os.Getenv", "os.TempDir", "os.UserHomeDir", "iface hash.Hash", "crypto/sha256.New", "(*regexp.Regexp).", "net/http.StatusText"} {
		if strings.HasPrefix(k, p) {
			return true
		}
	}
	return false
}

// ---------------------------------------------------------------------------
// Builtins
// ---------------------------------------------------------------------------

func (e *Exec) builtin(st *State, fr *Frame, b *ssa.Builtin, args []Value, c *ssa.CallCommon) (Value, bool) {
	switch b.Name() {
	case "len":
		a := args[0]
		switch {
		case isString(a.T):
			return scalar(tInt, App(SInt, "str.len", a.L[0])), false
		case isSlice(a.T):
			return scalar(tInt, sliceLen(a)), false
		case isMap(a.T):
			e.note(st, "len(map) abstracted to a non-negative unknown")
			n := e.freshConst("maplen", SInt)
			st.assert(Le(Zero, n))
			return scalar(tInt, n), false
		}
		n := e.freshConst("len", SInt)
		st.assert(Le(Zero, n))
		return scalar(tInt, n), false
	case "cap":
		n := e.freshConst("cap", SInt)
		if isSlice(args[0].T) {
			st.assert(Le(sliceLen(args[0]), n))
		}
		return scalar(tInt, n), false
	case "append":
		return e.doAppend(st, args[0], args[1]), false
	case "copy":
		e.note(st, "copy(): destination contents havocked")
		if isSlice(args[0].T) {
			el := args[0].T.Underlying().(*types.Slice).Elem()
			for _, l := range flatten(el) {
				e.havocAt(st, "elem:"+typeKey(el)+l.Suffix, l.Sort, true, sliceBase(args[0]))
			}
		}
		n := e.freshConst("copied", SInt)
		st.assert(And(Le(Zero, n), Le(n, sliceLen(args[0]))))
		return scalar(tInt, n), false
	case "delete":
		e.mapDelete(st, args[0], args[1])
		return Value{}, false
	case "close":
		ch := args[0].L[0]
		what := e.eng.srcText(c.Pos())
		closed := e.loadGhost(st, "closed", SBool, ch)
		e.oblige(st, "safety", "close:"+what, And(Neq(ch, Zero), Not(closed)), c.Pos(), nil, "close of nil or closed channel: "+what)
		st.assert(And(Neq(ch, Zero), Not(closed)))
		e.storeGhost(st, "closed", SBool, ch, True)
		e.storeGhost(st, "closedAt", SInt, ch, st.now)
		e.emit(st, Event{Name: "Close", Args: []Term{ch}, Pos: c.Pos()})
		return Value{}, false
	case "panic":
		e.oblige(st, "safety", "panic:"+e.eng.srcText(c.Pos()), False, c.Pos(), nil, "panic reachable")
		return Value{}, true
	case "print", "println":
		return Value{}, false
	case "recover":
		// recover() stops a panic only when called directly by a deferred
		// function while its caller is panicking; otherwise it returns nil.
		t := b.Type().(*types.Signature).Results().At(0).Type()
		if n := len(st.frames); n >= 2 && fr.retMode == 1 && st.frames[n-2].panicking {
			caller := st.frames[n-2]
			caller.panicking = false
			caller.recovered = true
			e.emit(st, Event{Name: "Recovered", Pos: c.Pos()})
			ty := e.freshConst("recover.ityp", SInt)
			iv := e.freshConst("recover.ival", SInt)
			st.assert(Neq(ty, Zero))
			return Value{T: t, L: []Term{ty, iv}}, false
		}
		return zeroValue(t), false
	case "min", "max":
		a, bb := args[0].L[0], args[1].L[0]
		if b.Name() == "min" {
			return scalar(args[0].T, Ite(Le(a, bb), a, bb)), false
		}
		return scalar(args[0].T, Ite(Ge(a, bb), a, bb)), false
	case "ssa:wrapnilchk":
		return args[0], false
	}
	panic("builtin " + b.Name())
}

func (e *Exec) doAppend(st *State, s Value, more Value) Value {
	sl := s.T.Underlying().(*types.Slice)
	el := sl.Elem()
	r := e.alloc(st, "append")
	newLen := e.define(st, "append.len", Add(sliceLen(s), sliceLen(more)))
	if isString(more.T) {
		e.note(st, "append([]byte, string...) contents abstracted")
		return mkSlice(s.T, r, Zero, Add(sliceLen(s), App(SInt, "str.len", more.L[0])))
	}
	for _, l := range flatten(el) {
		key := "elem:" + typeKey(el) + l.Suffix
		arr := e.cur(st, key, l.Sort, true)
		src := Select(arr, sliceBase(s))
		var content Term
		if sliceOff(s).S == "0" && isLit(sliceLen(more)) && (sliceLen(more).S == "1" || sliceLen(more).S == "0") {
			content = src
			if sliceLen(more).S == "1" {
				content = Store(src, sliceLen(s), Select(Select(arr, sliceBase(more)), sliceOff(more)))
			}
		} else {
			content = e.freshConst("append.arr", ArrS(SInt, l.Sort))
			st.assert(Term{fmt.Sprintf("(forall ((i Int)) (! (=> (and (<= 0 i) (< i %s)) (= (select %s i) (select %s (+ %s i)))) :pattern ((select %s i))))",
				sliceLen(s).S, content.S, src.S, sliceOff(s).S, content.S), SBool})
			msrc := Select(arr, sliceBase(more))
			st.assert(Term{fmt.Sprintf("(forall ((i Int)) (! (=> (and (<= 0 i) (< i %s)) (= (select %s (+ %s i)) (select %s (+ %s i)))) :pattern ((select %s (+ %s i)))))",
				sliceLen(more).S, content.S, sliceLen(s).S, msrc.S, sliceOff(more).S, content.S, sliceLen(s).S), SBool})
		}
		e.setHeap(st, key, Store(arr, r, content))
	}
	return mkSlice(s.T, r, Zero, newLen)
}

// ---------------------------------------------------------------------------
// Go statements and select (refined in conc.go)
// ---------------------------------------------------------------------------

func (e *Exec) execGo(st *State, fr *Frame, x *ssa.Go) ([]*State, bool) {
	fnv := Value{}
	if _, ok := x.Call.Value.(*ssa.Builtin); !ok {
		fnv = e.val(fr, x.Call.Value)
	}
	var args []Value
	for _, a := range x.Call.Args {
		args = append(args, e.val(fr, a))
	}
	ci := e.resolve(st, fr, &x.Call, fnv, args)
	e.goSpawn(st, fr, ci, x.Pos())
	fr.pc++
	return nil, true
}

// ---------------------------------------------------------------------------
// Contracts at call sites
// ---------------------------------------------------------------------------

func (e *Exec) paramNames(c *FuncContract, ci *callInfo) []string {
	if len(c.Params) > 0 {
		return c.Params
	}
	var names []string
	if ci.fn != nil && len(ci.fn.Params) > 0 {
		for _, p := range ci.fn.Params {
			names = append(names, p.Name())
		}
		return names
	}
	sig := ci.sig
	if ci.fn != nil {
		sig = ci.fn.Signature
	}
	if sig.Recv() != nil {
		n := sig.Recv().Name()
		if n == "" || n == "_" {
			n = "recv"
		}
		names = append(names, n)
	} else if strings.HasPrefix(c.Key, "iface ") || strings.HasPrefix(c.Key, "dyn ") {
		names = append(names, "recv")
	}
	for i := 0; i < sig.Params().Len(); i++ {
		n := sig.Params().At(i).Name()
		if n == "" || n == "_" {
			n = fmt.Sprintf("p%d", i)
		}
		names = append(names, n)
	}
	return names
}

func resultNames(c *FuncContract, sig *types.Signature) []string {
	if c != nil && len(c.Results) > 0 {
		return c.Results
	}
	var names []string
	n := sig.Results().Len()
	for i := 0; i < n; i++ {
		v := sig.Results().At(i)
		name := v.Name()
		if name == "" || name == "_" {
			if isErrorType(v.Type()) && i == n-1 {
				name = "err"
			} else if n == 1 {
				name = "result"
			} else {
				name = fmt.Sprintf("result%d", i)
			}
		}
		names = append(names, name)
	}
	return names
}

func isErrorType(t types.Type) bool {
	return types.Identical(t, types.Universe.Lookup("error").Type())
}

func (e *Exec) bindResults(env *SpecEnv, names []string, sig *types.Signature, res []Value) {
	for i, n := range names {
		if i < len(res) {
			env.vars[n] = res[i]
		}
	}
	if _, taken := env.vars["result"]; len(res) == 1 && (!taken || len(names) == 0 || names[0] == "result") {
		// (a contract that renames its single result with `results x` keeps
		// `result` free for a variable of that name, e.g. a captured one)
		env.vars["result"] = res[0]
	}
}

// applyContract: assert requires, havoc frame, assume ensures, append events.
func (e *Exec) applyContract(st *State, fr *Frame, ci *callInfo, c *FuncContract, retTo ssa.Value, mode int) []*State {
	if c.Assumed {
		e.usedAssumed[c.Key] = true
	} else {
		e.usedContracts[c.Key] = true
	}
	pkg := e.pkgOfFrame(fr)
	if ci.fn != nil && pkgOf(ci.fn) != nil && isRepoPkg(pkgOf(ci.fn)) {
		pkg = pkgOf(ci.fn)
	}
	env := &SpecEnv{e: e, st: st, vars: map[string]Value{}, pkg: pkg, trace: st.trace, what: "call " + c.Key}
	names := e.paramNames(c, ci)
	for i, n := range names {
		if i < len(ci.args) {
			env.vars[n] = ci.args[i]
		}
	}
	// free variables of closures with contracts
	if ci.fn != nil {
		for i, fv := range ci.fn.FreeVars {
			if i < len(ci.bind) && ci.bind[i].P != nil {
				env.vars["&"+fv.Name()] = ci.bind[i]
				env.vars[fv.Name()+"$ptr"] = ci.bind[i]
				if _, shadow := env.vars[fv.Name()]; !shadow {
					env.vars[fv.Name()] = e.loadPlace(st, ci.bind[i].P, nil)
				}
			}
		}
	}
	// implicit: pointer receiver is not nil
	if ci.fn != nil && ci.fn.Signature.Recv() != nil && isPointer(ci.fn.Signature.Recv().Type()) && len(ci.args) > 0 && !c.Assumed {
		r := ci.args[0]
		if !(r.P != nil && r.P.Kind != PObj) && !st.fresh[r.L[0].S] {
			e.oblige(st, "safety", "nil-recv:"+ci.what, Neq(r.L[0], Zero), ci.pos, nil, ci.what)
			st.assert(Neq(r.L[0], Zero))
		}
	}
	for i, rq := range c.Requires {
		t, err := env.evalBool(rq.Expr)
		if err != nil {
			e.specErr(err)
			continue
		}
		name := rq.Name
		if name == "" {
			name = fmt.Sprintf("%d", i+1)
		}
		e.oblige(st, "call-requires", fmt.Sprintf("%s/%s@%s", shortName(c.Key), name, ci.what), t, ci.pos, rq.Tags, rq.Text)
		st.assert(t)
	}
	// blocking callee while a lock is held
	if c.Attrs["blocks"] == "true" {
		e.blockingPoint(st, ci.pos, "call of blocking "+c.Key)
	}
	e.callLockEffects(st, c, env, ci)
	pre := st.heapSnapshot()
	preTop := st.allocTop
	preNow := st.now
	// frame
	e.applyAssigns(st, env, c)
	if c.Attrs["blocks"] == "true" {
		// other goroutines run while the callee is blocked
		e.interfere(st)
	}
	nt := e.freshConst("top.call", SInt)
	st.assert(Ge(nt, st.allocTop))
	st.allocTop = nt
	if (c.Attrs["time"] == "true" || c.Attrs["blocks"] == "true") && c.Attrs["instant"] != "true" {
		// (attr instant: other goroutines may interleave, but the callee does
		// no timed wait: the ghost clock stands still. File I/O and lock
		// acquisition are modelled this way, see DESIGN §2.8)
		nn := e.freshConst("now.call", SInt)
		st.assert(Ge(nn, st.now))
		st.now = nn
	}
	// results
	sig := ci.sig
	var res []Value
	for i := 0; i < sig.Results().Len(); i++ {
		rv := e.freshValue(st, sig.Results().At(i).Type(), "ret."+shortName(c.Key))
		zeroSliceOffsets(&rv)
		res = append(res, rv)
	}
	if (!c.Assumed && len(c.Assigns) > 0) || c.AssignsAll {
		// callees preserve the global invariants (every function of the cone
		// proves them at its return; library code cannot reach unexported state)
		e.assumeGlobalInv(st)
	}
	if c.Attrs["returns_fresh"] == "true" && len(res) > 0 && len(res[0].L) == 1 {
		// the callee hands back an object nobody else knows yet
		// (but its fields were initialised by the callee: unlike an object
		// allocated here it does not read as zero in older heap arrays)
		st.fresh[res[0].L[0].S] = true
		st.seq++
		st.freshSeq[res[0].L[0].S] = st.seq
		st.foreignFresh[res[0].L[0].S] = true
	}
	post := &SpecEnv{e: e, st: st, vars: env.vars, pkg: pkg, old: pre, oldTop: preTop, oldNow: preNow, trace: st.trace, what: "call " + c.Key}
	e.bindResults(post, resultNames(c, sig), sig, res)
	for _, en := range c.Ensures {
		if mentionsTrace(en.Expr) {
			// statements about the callee's own trace are not facts about the
			// caller's trace: the caller sees the callee's declared `emits` only
			continue
		}
		t, err := post.evalBool(en.Expr)
		if err != nil {
			e.specErr(err)
			continue
		}
		if t.S == "false" {
			e.specErr(fmt.Errorf("ensures clause %q of %s is false at a call site (would make the path vacuous)", en.Name, c.Key))
			continue
		}
		st.assert(t)
	}
	for _, em := range c.Emits {
		ev := Event{Name: em.Name, Pos: ci.pos, Cond: True}
		if em.When != nil {
			t, err := post.evalBool(em.When)
			if err != nil {
				e.specErr(err)
				continue
			}
			if t.S == "false" {
				continue
			}
			ev.Cond = t
		}
		bad := false
		for _, a := range em.Args {
			v, err := post.evalValue(a)
			if err != nil {
				e.specErr(err)
				bad = true
				break
			}
			ev.Args = append(ev.Args, refLeafOrScalar(v))
		}
		if !bad {
			e.emit(st, ev)
		}
	}
	if len(c.MayEmit) > 0 {
		e.emit(st, Event{MayLoop: append([]string(nil), c.MayEmit...), Deep: true, Pos: ci.pos})
	}
	var out Value
	switch len(res) {
	case 0:
	case 1:
		out = res[0]
	default:
		out = Value{Tup: res}
	}
	var succ []*State
	// exceptional edge: the callee may panic (only explored when the function
	// under verification has on_panic clauses)
	if c.Attrs["may_panic"] == "true" && e.top != nil && e.top.contract != nil && len(e.top.contract.PanicEnsures) > 0 && e.disc == nil {
		ps := st.clone()
		ps.pcs = append(ps.pcs, fmt.Sprintf("%s: %s panics", e.eng.posString(ci.pos), c.Key))
		ps.pathID = e.newPathID()
		e.emit(ps, Event{Name: "CalleePanic", Pos: ci.pos})
		if s2, _ := e.doPanic(ps, ci.pos); s2 != nil {
			succ = append(succ, s2...)
		}
	}
	s2, cont := e.afterCall(st, fr, retTo, out, mode)
	if cont {
		succ = append(succ, st)
	} else {
		succ = append(succ, s2...)
	}
	return succ
}

// summarizePredicate evaluates a one-block, effect-free func(T) bool on a fresh
// symbolic element x and returns its result as a term over x. Anything else
// (branches, loops, calls that are not pure intrinsics, captured variables) is
// declined.
func (e *Exec) summarizePredicate(st *State, f *FnVal, sl Value) (Term, Term, bool) {
	fn := f.Fn
	if fn == nil || len(fn.Blocks) != 1 || len(fn.Params) != 1 || len(f.Bind) != 0 || fn.Signature.Results().Len() != 1 {
		return Term{}, Term{}, false
	}
	ls := flatten(fn.Params[0].Type())
	if len(ls) != 1 {
		return Term{}, Term{}, false
	}
	x := e.freshConst("pred.x", ls[0].Sort)
	nf := e.newFrame(st, fn, []Value{{T: fn.Params[0].Type(), L: []Term{x}}}, nil)
	nf.block = fn.Blocks[0]
	depth := len(st.frames)
	nTrace := len(st.trace)
	st.frames = append(st.frames, nf)
	defer func() { st.frames = st.frames[:depth] }()
	for {
		if nf.pc >= len(nf.block.Instrs) {
			return Term{}, Term{}, false
		}
		in := nf.block.Instrs[nf.pc]
		switch v := in.(type) {
		case *ssa.Return:
			if len(v.Results) != 1 || len(st.trace) != nTrace {
				return Term{}, Term{}, false
			}
			r := e.val(nf, v.Results[0])
			if len(r.L) != 1 || r.L[0].Sort != SBool {
				return Term{}, Term{}, false
			}
			// expand names defined while evaluating the body, so that the
			// element symbol is visible for substitution
			body := r.L[0].S
			for i := 0; i < 8; i++ {
				changed := false
				for name, def := range e.defBody {
					if strings.Contains(def, x.S) && strings.Contains(body, name) {
						body = strings.ReplaceAll(body, name, def)
						changed = true
					}
				}
				if !changed {
					break
				}
			}
			if !strings.Contains(body, x.S) {
				return Term{}, Term{}, false
			}
			return Term{body, SBool}, x, true
		case *ssa.DebugRef, *ssa.BinOp, *ssa.UnOp, *ssa.Convert, *ssa.ChangeType:
		case *ssa.Call:
			sc := v.Call.StaticCallee()
			if sc == nil || !(strings.HasPrefix(sc.String(), "strings.") || strings.HasPrefix(sc.String(), "unicode.")) {
				return Term{}, Term{}, false
			}
		default:
			return Term{}, Term{}, false
		}
		succ, cont := e.execInstr(st, nf, in)
		if !cont || len(succ) != 0 || len(st.frames) != depth+1 {
			return Term{}, Term{}, false
		}
	}
}

// forcedInline: the contract of the function under verification asks for the
// body of this callee instead of its contract (`attr inline = key, key`): used
// where the callee's effect depends on a closure argument that its first-order
// contract cannot describe.
func (e *Exec) forcedInline(key string) bool {
	if e.top == nil || e.top.contract == nil {
		return false
	}
	for _, k := range strings.Split(e.top.contract.Attrs["inline"], ",") {
		if strings.TrimSpace(k) == key {
			return true
		}
	}
	return false
}

// pkgOfFrame: the types.Package a frame's function belongs to; synthetic
// wrappers (bound methods, thunks) have none and take the package of the
// function under verification.
func (e *Exec) pkgOfFrame(fr *Frame) *types.Package {
	if fr != nil && fr.fn != nil && fr.fn.Pkg != nil {
		return fr.fn.Pkg.Pkg
	}
	if fr != nil && fr.fn != nil {
		if p := pkgOf(fr.fn); p != nil {
			return p
		}
	}
	if e.fn != nil && e.fn.Pkg != nil {
		return e.fn.Pkg.Pkg
	}
	return nil
}

func (e *Exec) newPathID() string {
	e.pathN++
	return fmt.Sprintf("p%d", e.pathN)
}

// assignTarget is one location set a contract may write.
type assignTarget struct {
	key   string
	sort  Sort
	two   bool
	obj   Term // object (or backing array) whose entry may change
	whole bool // every object
}

func (e *Exec) assignTargets(env *SpecEnv, c *FuncContract, list []*SExpr) []assignTarget {
	var out []assignTarget
	for _, a := range list {
		ts, err := e.assignTarget(env, a)
		if err != nil {
			e.specErr(fmt.Errorf("assigns of %s: %v", c.Key, err))
			continue
		}
		out = append(out, ts...)
	}
	return out
}

func (e *Exec) assignTarget(env *SpecEnv, a *SExpr) (out []assignTarget, err error) {
	defer func() {
		if r := recover(); r != nil {
			if se, ok := r.(specError); ok {
				err = fmt.Errorf("%s (in %s)", se.msg, a.String())
				return
			}
			panic(r)
		}
	}()
	switch a.Op {
	case "frameref":
		fr, ok := e.eng.specs.Frames[a.Name]
		if !ok {
			return nil, fmt.Errorf("unknown frame @%s", a.Name)
		}
		for _, x := range fr {
			ts, err := e.assignTarget(env, x)
			if err != nil {
				return nil, err
			}
			out = append(out, ts...)
		}
		return out, nil
	case "id":
		switch a.Name {
		case "trace", "now", "fs", "fresh":
			return nil, nil
		}
		if g, ok := e.eng.specs.Ghosts[a.Name]; ok && !g.IsField {
			return []assignTarget{{key: "ghost:" + a.Name, sort: sortOfSpecType(env.specType(g.Result)), whole: true}}, nil
		}
	case "call":
		name := a.Args[0].String()
		switch name {
		case "all": // every field of the object
			v := env.eval(a.Args[1])
			p := env.placeOfPtr(v)
			keys, leaves, two := placeLeaves(p)
			for i, k := range keys {
				out = append(out, assignTarget{key: k, sort: leaves[i].Sort, two: two, obj: p.Base})
			}
			return out, nil
		case "mapof":
			v := env.eval(a.Args[1])
			mt := v.T.Underlying().(*types.Map)
			dk, ks, ok := mapKeys(mt)
			if !ok {
				return nil, nil
			}
			out = append(out, assignTarget{key: dk, sort: ArrS(ks, SBool), obj: v.L[0]})
			for _, l := range flatten(mt.Elem()) {
				out = append(out, assignTarget{key: "mapval:" + typeKey(mt) + l.Suffix, sort: ArrS(ks, l.Sort), obj: v.L[0]})
			}
			return out, nil
		case "mapsof": // every map stored in field f of any object of type T: mapsof(T.f)
			sel := a.Args[1]
			if sel.Op != "sel" || sel.Args[0].Op != "id" {
				return nil, fmt.Errorf("mapsof wants Type.field")
			}
			t := env.specType(sel.Args[0].Name)
			stt, ok := t.Underlying().(*types.Struct)
			if !ok {
				return nil, fmt.Errorf("mapsof: %s is not a struct", sel.Args[0].Name)
			}
			for i := 0; i < stt.NumFields(); i++ {
				if stt.Field(i).Name() != sel.Name {
					continue
				}
				mt, ok := stt.Field(i).Type().Underlying().(*types.Map)
				if !ok {
					return nil, fmt.Errorf("mapsof: field is not a map")
				}
				dk, ks, ok := mapKeys(mt)
				if !ok {
					return nil, nil
				}
				out = append(out, assignTarget{key: dk, sort: ArrS(ks, SBool), whole: true})
				for _, l := range flatten(mt.Elem()) {
					out = append(out, assignTarget{key: "mapval:" + typeKey(mt) + l.Suffix, sort: ArrS(ks, l.Sort), whole: true})
				}
				return out, nil
			}
			return nil, fmt.Errorf("mapsof: no such field")
		case "elemsof":
			v := env.eval(a.Args[1])
			el := v.T.Underlying().(*types.Slice).Elem()
			for _, l := range flatten(el) {
				out = append(out, assignTarget{key: "elem:" + typeKey(el) + l.Suffix, sort: l.Sort, two: true, obj: sliceBase(v)})
			}
			return out, nil
		}
		if g, ok := e.eng.specs.Ghosts[name]; ok && !g.IsField {
			v := env.eval(a.Args[1])
			return []assignTarget{{key: "ghost:" + name, sort: sortOfSpecType(env.specType(g.Result)), obj: refLeaf(v)}}, nil
		}
		if name == "atomicbool" {
			v := env.eval(a.Args[1])
			return []assignTarget{{key: "ghost:atomicBool", sort: SBool, obj: refLeaf(v)}}, nil
		}
	case "sel":
		// Type.field : every object
		if a.Args[0].Op == "id" {
			if _, isVar := env.vars[a.Args[0].Name]; !isVar {
				t := env.specType(a.Args[0].Name)
				if g, ok := e.eng.specs.Ghosts[a.Name]; ok && g.IsField && g.Owner == typeKey(t) {
					return []assignTarget{{key: typeKey(t) + "$" + a.Name, sort: sortOfSpecType(env.specType(g.Result)), whole: true}}, nil
				}
				stt, ok := t.Underlying().(*types.Struct)
				if !ok {
					return nil, fmt.Errorf("%s is not a struct type", a.Args[0].Name)
				}
				for i := 0; i < stt.NumFields(); i++ {
					if stt.Field(i).Name() == a.Name {
						for _, l := range flatten(stt.Field(i).Type()) {
							out = append(out, assignTarget{key: typeKey(t) + "." + a.Name + l.Suffix, sort: l.Sort, whole: true})
						}
						return out, nil
					}
				}
				return nil, fmt.Errorf("no field %s in %s", a.Name, a.Args[0].Name)
			}
		}
		// a.b.c.f : walk the selector chain from the first pointer-valued prefix
		if fp := e.specPlace(env, a); fp != nil {
			keys, leaves, two := placeLeaves(fp)
			for j, k := range keys {
				out = append(out, assignTarget{key: k, sort: leaves[j].Sort, two: two, obj: e.placeIndex(fp)})
			}
			return out, nil
		}
		base := env.eval(a.Args[0])
		if g, ok := e.eng.specs.Ghosts[a.Name]; ok && g.IsField {
			p := env.placeOfPtr(base)
			prefix, _ := placePrefix(p)
			return []assignTarget{{key: prefix + "$" + a.Name, sort: sortOfSpecType(env.specType(g.Result)), obj: e.placeIndex(p)}}, nil
		}
		return nil, fmt.Errorf("no field %s", a.Name)
	}
	return nil, fmt.Errorf("unsupported assigns target")
}

func (e *Exec) applyAssigns(st *State, env *SpecEnv, c *FuncContract) {
	if c.AssignsAll {
		e.havocAll(st)
		return
	}
	var self Term
	if c.Attrs["not_self"] == "true" && e.top != nil && e.fn.Signature.Recv() != nil && len(e.fn.Params) > 0 {
		if v, ok := e.top.params[e.fn.Params[0].Name()]; ok && len(v.L) == 1 && isPointer(v.T) {
			self = v.L[0]
		}
	}
	for _, t := range e.assignTargets(env, c, c.Assigns) {
		if t.whole {
			old := e.cur(st, t.key, t.sort, t.two)
			e.havocKey(st, t.key, t.sort, t.two)
			e.monotoneLinkFrom(st, t.key, old, st.heap[t.key])
			if self.S != "" && !t.two {
				// writer chains are acyclic: a call through the wrapped writer does not touch the wrapper itself
				st.assert(Eq(Select(st.heap[t.key], self), Select(old, self)))
			}
		} else {
			old := e.cur(st, t.key, t.sort, t.two)
			e.havocAt(st, t.key, t.sort, t.two, t.obj)
			e.monotoneLinkFrom(st, t.key, old, st.heap[t.key])
		}
	}
}

// monotone ghosts only ever go from false to true: after any havoc the new
// array is pointwise implied by the old one.
func (e *Exec) monotoneLinkFrom(st *State, key string, old, nw Term) {
	if !strings.HasPrefix(key, "ghost:") {
		return
	}
	g := e.eng.specs.Ghosts[strings.TrimPrefix(key, "ghost:")]
	if g == nil || !g.Monotone || old.S == nw.S {
		return
	}
	st.assert(Term{fmt.Sprintf("(forall ((x Int)) (! (=> (select %s x) (select %s x)) :pattern ((select %s x))))", old.S, nw.S, nw.S), SBool})
}

var tracePreds = map[string]bool{"nowhere": true, "emitted": true, "none": true, "count": true, "before": true, "first": true, "only": true, "last_is": true, "all": true}

func mentionsTrace(x *SExpr) bool {
	if x == nil {
		return false
	}
	if x.Op == "call" && x.Args[0].Op == "id" && tracePreds[x.Args[0].Name] {
		return true
	}
	for _, a := range x.Args {
		if mentionsTrace(a) {
			return true
		}
	}
	return false
}

// specPlace resolves a selector chain x.a.b.c to the memory place it denotes,
// when some prefix of the chain is a pointer and the rest are struct fields.
func (e *Exec) specPlace(env *SpecEnv, x *SExpr) *Place {
	if x.Op != "sel" {
		return nil
	}
	if g, ok := e.eng.specs.Ghosts[x.Name]; ok && g.IsField {
		return nil
	}
	// innermost first
	var chain []string
	cur := x
	for cur.Op == "sel" {
		chain = append([]string{cur.Name}, chain...)
		cur = cur.Args[0]
	}
	// evaluate the longest prefix that yields a pointer
	root := cur
	if root.Op == "id" {
		if _, isVar := env.vars[root.Name]; !isVar {
			return nil
		}
	}
	var v Value
	func() {
		defer func() {
			if r := recover(); r != nil {
				if _, ok := r.(specError); !ok {
					panic(r)
				}
				v = Value{}
			}
		}()
		v = env.eval(root)
	}()
	if v.T == nil || !isPointer(v.T) {
		return nil
	}
	p := env.placeOfPtr(v)
	t := v.T.Underlying().(*types.Pointer).Elem()
	for i, name := range chain {
		st, ok := t.Underlying().(*types.Struct)
		if !ok {
			return nil
		}
		found := false
		for fi := 0; fi < st.NumFields(); fi++ {
			if st.Field(fi).Name() == name {
				p = fieldPlace(p, t, st, fi)
				t = st.Field(fi).Type()
				found = true
				break
			}
		}
		if !found {
			return nil
		}
		// a pointer-typed intermediate field: load it and continue from the object it points to
		if i < len(chain)-1 {
			if pt, ok := t.Underlying().(*types.Pointer); ok {
				lv := e.loadPlace(env.st, p, env.view)
				p = &Place{Kind: PObj, Base: lv.L[0], Typ: pt.Elem()}
				t = pt.Elem()
			}
		}
	}
	return p
}
